"""Per-property manifest texts (source of MANIFEST.json, see mkmanifest.py)."""
CHECKS = {
 'C15': dict(
  technique='property-based round-trip testing (Hypothesis) + exhaustive enumeration of 2-cut chunkings and truncation points',
  text='Generated item lists are framed by the real frame(), re-chunked arbitrarily (empty chunks, cuts inside prefixes/payloads/lines, truncations) and unframed; the result must equal the items (complete frames only for truncated length-prefixed streams; unterminated last line delivered at completion). Exploration, not proof: holds on every generated case plus all 2-cut chunkings / all truncation points of the small generated streams.',
  note='Trusts rx.from_ for synchronous in-order delivery; items obey the documented size limit of the prefix; absence of violations is only shown for the explored cases.'),
 'C01': dict(
  technique='differential property-based testing (Hypothesis): keyed run vs per-group plain run of generated pipelines',
  text='For generated type-correct pipelines over the whole dual-mode catalogue (incl. nested tee_map, all joins) and generated keyed inputs/interleavings, every group\'s output under group_by+with_memory_store, under raw mux events with sparse key indices and under multiplex() must equal, item by item, the output of the same pipeline on that group alone as a plain observable; a failing assert_ must fail the keyed stream with the same exception type. Exploration over ~8k (quick) / ~700k (thorough) cases.',
  note='Both sides are the real code (no model in the comparison); the reference model is only used to reject cases where first/last/mean(reduce) would see an empty sequence. User functions come from finite pure families; streaming scans use non-mutating accumulators (aliasing of re-emitted mutable state is outside the property).'),
 'C02': dict(
  technique='differential + metamorphic property-based testing (Hypothesis): nested lifetime vs standalone run, interleaving A vs B, raw slot histories',
  text='Every key lifetime observed (taps) inside group_by/roll/split/time_split nestings is re-run alone through the same generated stateful pipeline with a fresh store and must produce the same output; two interleavings of the same per-key sequences must give identical per-key outputs; raw histories on sparse/descending/re-used slot indices must match each lifetime run alone. Exploration.',
  note='Both sides are the real code; the model only rejects out-of-domain cases (mean of nothing). Depth of nesting <= 2 parents + 2 inside the pipeline.'),
 'C03': dict(
  technique='runtime invariant monitor on every MuxObservable subscription under property-based generation + bounded-exhaustive roll parameters',
  text='A monitor wrapped around the observer of every rs.MuxObservable subscription (26 operator boundaries reached, incl. those inside composite operators) checks the key lifecycle, uniqueness of live slot indices and no-live-key-at-completion on generated pipelines nested to depth 3, raw histories and multiplex; all (window,stride,length) <= (5,5,13) quick / (7,7,25) thorough for roll alone and under group_by. Exploration.',
  note='The monitor is installed by monkeypatching rs.MuxObservable.__init__ in the check process; pipelines contain no raising user function.'),
 'C04': dict(
  technique='model-based property testing: list-scan partition reference vs head-tap observation and full output',
  text='group_by over generated keys that are equal but not identical objects (big ints, tuples, run-time strings, 1/1.0/True, None), with to_list / identity / generated stateful inner pipelines, alone and inside group_by/roll/split; the groups seen by a tap and the whole output sequence must equal the reference partition (by ==, first-appearance completion order). Exploration.',
  note='Trusts the reference model; floats from different algorithms compared with rel. tol. 1e-9.'),
 'C05': dict(
  technique='bounded-exhaustive enumeration of (window, stride, length) + model-based property testing with clocked taps',
  text='All 1<=w,s<=8, 0<=n<=40 (thorough: <=12, <=120): window contents == slices [js, js+w), opening while item js is processed, full windows closed with their w-th item, closing order == opening order, to_list in that order; generated cases put roll under group_by with interleaved keys, inside roll/split and around arbitrary inner pipelines (vs reference model).',
  note='Exhaustive within the stated bounds only (exhaustive sub-check), exploration elsewhere. The order in which one item reaches several windows is not judged.'),
 'C06': dict(
  technique='model-based property testing with clocked taps: segments vs maximal runs computed by a plain loop',
  text='split over predicate values that are equal-not-identical objects, at top level, under group_by with interleaved keys and nested in roll/split: segments must equal the maximal runs by !=, open with the first item of a run, close with the next run / key completion, none for an empty key; whole output vs reference model. Exploration.',
  note='Trusts the reference loop; predicate values obey ==/!= consistency.'),
 'C07': dict(
  technique='model-based property testing + bounded-exhaustive enumeration of timestamp/flag sequences and configurations',
  text='Non-empty windows observed by a tap must equal the sessions computed by a direct transcription of the statement, for generated non-decreasing timestamps (equal stamps, gaps == timeout), all combinations of active/inactive/closing/include, top level and under group_by; every delta sequence over {0..3} x flags up to length 2 (quick) / 5 (thorough) x all configurations is enumerated.',
  note='Empty windows after an included closing item are ignored (reading recorded in DESIGN.md 1.4).'),
 'C08': dict(
  technique='differential property-based testing: real tee_map vs cause-tagged branches run alone + join rule',
  text='Each generated branch pipeline is run alone (real code) with event-numbering taps; ordering the outputs by (event, branch, emission) and applying the merge/zip/combine_latest rule must reproduce the real tee_map output exactly: on one key, per key lifetime under group_by/roll/split/time_split (slot re-use), and on plain Subject-driven observables with early-completing branches. Exploration.',
  note='Only fan-out and join are modelled; relies on synchronous execution for cause tagging.'),
 'C09': dict(
  technique='model-based + metamorphic property testing (pure re-implementation of the fold; reduce vs streaming; object-identity isolation checks)',
  text='scan with generated accumulators (incl. mutating list/dict/nested ones), seeds as value or factory, reduce and terminator on/off, per key lifetime under group_by/roll/split/time_split nestings and raw slot histories: streaming output == running left fold from a fresh seed, reduce == one item == last fold or seed, last streaming == reduce, terminator exactly once, accumulators of different lifetimes are distinct objects and mutating one changes neither the others nor the seed, a second subscription restarts from the original seed; every operator defined through scan (count..dist.update, progress) vs its list definition per key. Exploration.',
  note='The pure re-implementations of the accumulators are the specification; finite accumulator family.'),
 'C10': dict(
  technique='property-based testing against list definitions / validity predicates + bounded-exhaustive enumeration of short sequences',
  text='first, last, take, distinct, distinct_until_changed, lag, pad_start, pad_end, start_with, batch on plain observables (where supported), with_memory_store, per key under group_by and on re-used raw slots, sort on plain observables (permutation, monotone keys, stability); values include None and equal-not-identical objects; every sequence over {0,1,None} up to length 4 (thorough 6) x every operator x every parameter is enumerated.',
  note='Padding operators judged on non-empty sequences only (empty: emits nothing, completes).'),
 'C12': dict(
  technique='property-based testing against exact rational arithmetic with an explicit forward-error bound',
  text='sum, mean, min, max, variance, stddev, formal.variance, formal.stddev, streaming (every prefix) and reduce, with/without key_mapper, plain / with_memory_store / per key: compared with Fraction arithmetic on the same doubles; error must stay below c*n*u*(condition) (+ underflow term), min/max exact, <2 items exactly 0.0, last streaming == reduce. Data include offsets up to 1e9 with scales down to 1e-6 (condition numbers up to ~1e15), 10^4 items in the thorough tier.',
  note='An error smaller than the stated bound (8(n+2)u(V+|mu|sqrt V)) is not detected.'),
 'C13': dict(
  category='fault_enumeration',
  technique='fault-injection property testing: generated and exhaustively enumerated subsets of raising items against a reference computed without them',
  text='For map/starmap/filter/scan raising on flagged items, with ignore / error.map / error router / no handler directly behind, tails to_list/scan/count, drivers with_memory_store / multiplex / group_by with interleaved keys: exactly one mux error per flagged item in place (tap), main output == output without the flagged items (mapped in place for error.map), dead letters exactly the exceptions in order then completion, unhandled error surfaces as on_error(Boom(first)) with a prefix of the clean output. ALL failing subsets for n<=4 (thorough 6) x operators x handlers x {1,2} keys are enumerated.',
  note='Handler directly after the failing operator, as the property states.'),
 'C14': dict(
  technique='stateful (rule-based state machine) property testing against a dict model',
  text='Hypothesis RuleBasedStateMachine histories (50 steps) of add_key/set/get/del_key/iterate/add_map/get_map/iterate_map/flush over sparse, descending, re-added indices, for int/uint/float/bool/obj/mapper states with and without defaults, on MemoryStore and through StoreManager with a 3-state topology; after every step all live slots of all states are re-read against the model.',
  note='Only calls the operators make are generated (reads/writes on added indices; del_map only in the group_by flush sequence).'),
 'C11': dict(
  technique='model-based property testing with a stepped (Subject-driven) source and a timed reference model',
  text='Every output of generated pipelines (nested windows, groups, tees; plain dual-mode pipelines with early completion) is stamped with the source push during which it was emitted; per push the multiset of outputs must equal that of the reference model, so nothing is early and nothing is late. Exploration.',
  note='Trusts the reference model (vf/model.py, cross-validated against the code on >10^4 pipelines) and that rxsci is synchronous; order within one push is not judged here.'),
 'C16': dict(
  category='fault_enumeration',
  technique='round-trip property testing with reference decoders + exhaustive enumeration of truncation points',
  text='Generated chunk lists (0..300 KB, zeros/text/noise) are compressed by the real gzip/zstd compress(), the compressed bytes re-chunked (as emitted, generated cuts incl. empty chunks anywhere, byte by byte) and decompressed: output == input, completes, and gzip.decompress / zstandard accept the bytes as a standalone file. Every proper prefix of compressed streams <= 2 KB (fed whole / in halves / byte-wise) must end in on_error without completion and with a prefix of the original emitted.',
  note='Empty chunks are legal elements of a re-chunking; non-empty trailing garbage is outside the property.'),
 'C17': dict(
  technique='round-trip property testing over byte-level re-chunkings + exhaustive 2-cut chunkings of short texts',
  text='String lists over the full Unicode range encoded with rs.data.encode (utf-8/16/32, latin-1, utf-8-sig, utf-16-le, utf-32-be), re-chunked at generated byte positions (inside multi-byte sequences and the BOM, empty chunks) and decoded: text equal to the concatenation; bytes equal to str.encode of the concatenation (BOM once).',
  note='No lone surrogates; same encoding on both sides.'),
 'C18': dict(
  technique='round-trip property testing (in memory and through files)',
  text='Typed rows (ints of any size, every finite double as printed by str(), bools, strings weighted towards separator/quote/escape/blank characters) through csv.dump -> line.unframe -> csv.load and dump_to_file -> load_from_file (files crossing 64 KiB), for 5 separators x 2 escape characters x 1..8 columns: every field equal incl. the sign bit of floats.',
  note='No newline in strings (no CR through text-mode files); header=True; utf-8 files.'),
 'C19': dict(
  technique='round-trip property testing through files (compression None/gzip/zstd) and in memory',
  text='Lists of JSON dicts (nested, 64-bit ints, finite floats, None inside, arbitrary Unicode incl. newlines/quotes/U+2028/astral) written by dump_to_file and read by load_from_file for each compression, 0 objects .. several 64 KiB chunks with multi-byte padding (chunk boundaries cut characters), path and custom open_obj; type-strict equality (1 vs 1.0 vs True).',
  note='Items are dicts with str keys; orjson limits (no NaN, no lone surrogates).'),
 'C20': dict(
  technique='round-trip property testing with an independent reader (pyarrow.parquet.read_table) + enumeration of boundary row counts',
  text='Row counts 0..5000 x dump batch sizes 1..2000 x load batch sizes x row_group_size x NONE/snappy/gzip/zstd x schemas (int64, string, float64, struct, list<int64>) x path/file object: the file read by pyarrow and by load_from_file must hold exactly the written rows once each in order; all row counts 0..2b+1 enumerated for small b.',
  note='pyarrow is the trusted independent reader.'),
}
NOT_APPLICABLE = {}
