"""Per-property manifest texts (source of MANIFEST.json, see mkmanifest.py)."""
CHECKS = {
 'C15': dict(
  technique='property-based round-trip testing (Hypothesis) + exhaustive enumeration of 2-cut chunkings and truncation points',
  text='Generated item lists are framed by the real frame(), re-chunked arbitrarily (empty chunks, cuts inside prefixes/payloads/lines, truncations) and unframed; the result must equal the items (complete frames only for truncated length-prefixed streams; unterminated last line delivered at completion). Exploration, not proof: holds on every generated case plus all 2-cut chunkings / all truncation points of the small generated streams.',
  note='Trusts rx.from_ for synchronous in-order delivery; items obey the documented size limit of the prefix; absence of violations is only shown for the explored cases.'),
}
NOT_APPLICABLE = {}
