"""Per-property manifest texts (source of MANIFEST.json, see mkmanifest.py)."""
CHECKS = {
 'C15': dict(
  technique='property-based round-trip testing (Hypothesis) + exhaustive enumeration of 2-cut chunkings and truncation points',
  text='Generated item lists are framed by the real frame(), re-chunked arbitrarily (empty chunks, cuts inside prefixes/payloads/lines, truncations) and unframed; the result must equal the items (complete frames only for truncated length-prefixed streams; unterminated last line delivered at completion). Exploration, not proof: holds on every generated case plus all 2-cut chunkings / all truncation points of the small generated streams.',
  note='Trusts rx.from_ for synchronous in-order delivery; items obey the documented size limit of the prefix; absence of violations is only shown for the explored cases.'),
 'C01': dict(
  technique='differential property-based testing (Hypothesis): keyed run vs per-group plain run of generated pipelines',
  text='For generated type-correct pipelines over the whole dual-mode catalogue (incl. nested tee_map, all joins) and generated keyed inputs/interleavings, every group\'s output under group_by+with_memory_store, under raw mux events with sparse key indices and under multiplex() must equal, item by item, the output of the same pipeline on that group alone as a plain observable; a failing assert_ must fail the keyed stream with the same exception type. Exploration over ~8k (quick) / ~700k (thorough) cases.',
  note='Both sides are the real code (no model in the comparison); the reference model is only used to reject cases where first/last/mean(reduce) would see an empty sequence. User functions come from finite pure families; streaming scans use non-mutating accumulators (aliasing of re-emitted mutable state is outside the property).'),
 'C11': dict(
  technique='model-based property testing with a stepped (Subject-driven) source and a timed reference model',
  text='Every output of generated pipelines (nested windows, groups, tees; plain dual-mode pipelines with early completion) is stamped with the source push during which it was emitted; per push the multiset of outputs must equal that of the reference model, so nothing is early and nothing is late. Exploration.',
  note='Trusts the reference model (vf/model.py, cross-validated against the code on >10^4 pipelines) and that rxsci is synchronous; order within one push is not judged here.'),
}
NOT_APPLICABLE = {}
