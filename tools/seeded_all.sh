#!/bin/sh
# cross table: every seeded change against every check (quick tier); meta.json files are updated in the CURRENT checkout
cd "$(dirname "$0")/.."
ls seeded | xargs -P ${1:-6} -I{} /venv/bin/python tools/seeded.py check {} --all
/venv/bin/python tools/seeded.py table
