#!/bin/sh
# thorough tier of the sub-checks changed in the session that added rounds 12 and 13 (one line per run)
cd "$(dirname "$0")/.."
seed=${1:-1}
for spec in "C12 accuracy" "C10 single" "C18 memory" "C20 roundtrip" "C02 many_keys" "C14 long" "C09 reentrant" "C19 files" "C01 bigint" "C01 assert_fails" "C03 store"; do
  set -- $spec
  out=$(VERIF_SEED=$seed /venv/bin/python run.py check $1 --tier thorough --sub $2 2>&1); c=$?
  echo "seed=$seed $1/$2 rc=$c $(echo "$out" | tail -1)"
  if [ $c -ne 0 ]; then echo "$out" | grep -E "VIOLATION|  C[0-9]+/|HARNESS|Error" | head -10; fi
done
