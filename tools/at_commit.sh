#!/bin/sh
# usage: at_commit.sh <commit> <run.py args...>   -- runs a check against an export of /repo at <commit> (scratch copy, removed afterwards)
c=$1; shift
d=$(mktemp -d /tmp/rxsci_at_XXXXXX)
git -C /repo archive "$c" rxsci | tar -x -C "$d"
VERIF_REPO="$d" /venv/bin/python /verif/run.py "$@"
rc=$?
rm -rf "$d"
exit $rc
