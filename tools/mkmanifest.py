#!/venv/bin/python
"""Regenerates /verif/MANIFEST.json from the table below (keeps it valid at all times)."""
import json, os, sys
VERIF = os.path.dirname(os.path.dirname(os.path.abspath(__file__)))
sys.path.insert(0, VERIF)
from tools.manifest_table import CHECKS, NOT_APPLICABLE

props = [json.loads(l) for l in open(os.path.join(VERIF, 'properties.jsonl'))]
ids = [p['id'] for p in props]
checks = []
for pid in ids:
    if pid not in CHECKS:
        continue
    c = CHECKS[pid]
    checks.append({
        'property_id': pid,
        'quick_cmd': '/venv/bin/python /verif/run.py check %s --tier quick' % pid,
        'thorough_cmd': '/venv/bin/python /verif/run.py check %s --tier thorough' % pid,
        'evidence_file': '/verif/evidence/%s.json' % pid,
        'replay_cmd_template': '/venv/bin/python /verif/run.py replay {path}',
        'engine': 'vf',
        'level_claimed': {'category': c.get('category', 'exploration'), 'text': c['text'], 'design_ref': 'DESIGN.md section 3, ' + pid},
        'level_note': c['note'],
        'technique': c['technique'],
    })
na = [{'property_id': pid, 'reason': NOT_APPLICABLE.get(pid, 'check not built yet (work in progress; see DESIGN.md section 3 for the planned design)')}
      for pid in ids if pid not in CHECKS]
m = {
    'version': 1,
    'setup_cmd': '/venv/bin/python /verif/run.py setup',
    'hooks': {
        'guard': 'MAKI_NAGE_RXSCI_VERIF',
        'enable': 'no source hooks: taps, the protocol monitor and the stepped driver live in /verif (harness-side operators and monkeypatching of rs.MuxObservable.__init__ in the check process); run.py sets MAKI_NAGE_RXSCI_VERIF=1 for uniformity',
        'baseline_off_cmd': 'cd /repo && /venv/bin/python -m pytest -ra -q -p no:cacheprovider --timeout=900 --continue-on-collection-errors',
        'source_commits': [],
        'add_only': True,
    },
    'engines': [{
        'name': 'vf', 'path': '/verif/run.py', 'serves_properties': [c['property_id'] for c in checks],
        'kind_free_text': 'Hypothesis 6.168 property-based testing (structured + stateful generation, shrinking to JSON replay files), bounded-exhaustive enumeration of small parameter spaces, reference-model / differential / round-trip oracles; 16-way sharding in the thorough tier',
    }],
    'checks': checks,
    'not_applicable': na,
    'notes': 'All checks: VERIF_SEED selects the Hypothesis seed (seed*1000+shard), PYTHONHASHSEED=0 is forced by re-exec, exit 2 = harness error (never a violation). Known findings: /verif/known_findings.json. Seeded breaking changes used to test the checks: /verif/seeded/.',
}
with open(os.path.join(VERIF, 'MANIFEST.json'), 'w') as f:
    json.dump(m, f, indent=1)
    f.write('\n')
import jsonschema
jsonschema.validate(m, json.load(open('/root/.vp/MANIFEST.schema.json')))
print('MANIFEST.json: %d checks, %d not_applicable' % (len(checks), len(na)))
