#!/bin/sh
# usage: sweep.sh <tier> <seed> [<seed>...]  -- runs every registered check at each seed; prints one line per run; exit 1 if any non-zero
tier=$1; shift
cd "$(dirname "$0")/.."
rc=0
for seed in "$@"; do
  for p in C01 C02 C03 C04 C05 C06 C07 C08 C09 C10 C11 C12 C13 C14 C15 C16 C17 C18 C19 C20; do
    out=$(VERIF_SEED=$seed /venv/bin/python run.py check $p --tier $tier 2>&1)
    c=$?
    echo "seed=$seed $p rc=$c $(echo "$out" | tail -1)"
    if [ $c -ne 0 ]; then rc=1; echo "$out" | grep -E "VIOLATION|  C[0-9]+/|HARNESS|Error" | head -20; fi
  done
done
exit $rc
