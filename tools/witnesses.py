#!/venv/bin/python
"""Witness cases of the genuine defects found in rxsci (all repaired by `fix:` commits in /repo).
    witnesses.py write      -> writes /verif/regress/<PID>/<name>.json and /verif/known_findings.json
    witnesses.py verify     -> each witness must FAIL on the parent of its fix commit and PASS on /repo's working tree
"""
import json, os, subprocess, sys, tempfile, shutil
VERIF = os.path.dirname(os.path.dirname(os.path.abspath(__file__)))

def git(*a):
    return subprocess.run(['git', '-C', '/repo'] + list(a), stdout=subprocess.PIPE, check=True).stdout.decode().strip()

FIXES = {  # defect -> subject prefix of the fix commit
 'D1': 'fix: batch emits every item exactly once',
 'D2': 'fix: distinct_until_changed keeps the first item',
 'D3': 'fix: formal.variance no longer clears',
 'D4': 'fix: tee_map resets the join slots',
 'D5': 'fix: roll closes the partial windows',
 'D6': 'fix: parquet create_record starts every batch',
 'D7': 'fix: csv float columns are parsed with float()',
 'D8': 'fix: csv merge_escape_parts recognises',
 'D9': 'fix: progress seeds its accumulator',
 'D10': 'fix: zstd.decompress accepts an empty chunk',
 'D11': 'fix: split does not compare the first item of a key with itself',
 'D12': 'fix: filter on a MuxObservable uses the truth value',
}
PQ = {'load_batch': 2, 'row_group': None, 'compression': 'snappy', 'cols': ['i', 's'], 'fileobj': False, 'seed': 1}
W = [  # (defect, property, sub, name, what, case)
 ('D1', 'C10', 'single', 'batch-repeats-last', 'batch(3) on 6 items emitted [[0,1,2],[3,4,5],[3,4,5]]', {'op': ['batch', 3], 'xs': [0, 1, 2, 3, 4, 5]}),
 ('D1', 'C10', 'single', 'batch-1-late', 'batch(1) on 4 items emitted [[0],[1,2,3]]', {'op': ['batch', 1], 'xs': [0, 1, 2, 3]}),
 ('D1', 'C10', 'single', 'batch-empty', 'batch on an empty source emitted [[]]', {'op': ['batch', 2], 'xs': []}),
 ('D1', 'C11', 'mux', 'batch-1-late', 'batch(1) emitted one step late', {'tin': 'int', 'p': [['batch', 1]], 'items': [1, 2]}),
 ('D1', 'C20', 'roundtrip', 'batch-repeats-last', 'parquet file holds the last batch twice', dict(PQ, rows=2, dump_batch=1)),
 ('D2', 'C10', 'single', 'duc-leading-none', 'distinct_until_changed dropped a leading run of None', {'op': ['duc'], 'xs': [None, None, 1]}),
 ('D3', 'C12', 'accuracy', 'fvariance-streaming-zero', 'streaming formal.variance of [1,2,4] emitted 0.0', {'data': {'kind': 'short', 'xs': [1.0, 2.0, 4.0]}, 'op': 'fvariance', 'km': False, 'mode': 'plain'}),
 ('D4', 'C02', 'nested', 'tee-slot-leak', 'tee_map(combine_latest) under roll(1,1): second window saw values of the first', {'tin': 'int', 'layers': [['roll', 1, 1]], 'p': [['tee', 'combine_latest', [[], [], []]]], 'items': [1, 0]}),
 ('D4', 'C08', 'nested', 'tee-slot-leak', 'tee_map(combine_latest) under roll(1,1) with a silent branch', {'tin': 'int', 'branches': [[], [['filter_gt', 0]], []], 'join': 'combine_latest', 'layers': [['roll', 1, 1]], 'items': [1, 0]}),
 ('D5', 'C05', 'enum', 'roll-flush-slot-order', 'roll(4,1) on 5 items closed its partial windows in slot order', {'w': 4, 's': 1, 'n': 5}),
 ('D6', 'C20', 'roundtrip', 'parquet-column-buffers', 'every parquet batch re-contained all previous rows', dict(PQ, rows=3, dump_batch=1)),
 ('D7', 'C18', 'memory', 'csv-float-sign', "csv float '-1.5' read back as -0.5", {'sep': ',', 'esc': '\\', 'types': ['float'], 'rows': [[-1.5]]}),
 ('D7', 'C18', 'memory', 'csv-float-inexact', "csv float '5.56' read back as 5.5600000000000005", {'sep': ',', 'esc': '\\', 'types': ['float'], 'rows': [[5.56]]}),
 ('D7', 'C18', 'memory', 'csv-float-minus-zero', "csv float '-0.0' read back as 0.0", {'sep': ',', 'esc': '\\', 'types': ['float'], 'rows': [[-0.0]]}),
 ('D8', 'C18', 'memory', 'csv-trailing-escape', 'string ending with the escape character next to a string containing the separator', {'sep': ',', 'esc': '\\', 'types': ['int', 'str'], 'rows': [[0, ',\\']]}),
 ('D9', 'C09', 'derived', 'progress-seed', 'progress raised ValueError on every use', {'node': ['progress', 2], 'tin': 'int', 'driver': 'layers', 'layers': [], 'items': [1, 2, 3]}),
 ('D9', 'C01', 'grouped', 'progress-seed', 'progress raised ValueError on every use (plain and multiplexed)', {'tin': 'int', 'p': [['progress', 1]], 'items': [[0, 0]]}),
 ('D11', 'C06', 'runs', 'split-nan-first', 'split emitted an extra empty segment when the first predicate value of a key differs from itself (NaN)', {'pool': [['nan', 0]], 'preds': [0, 0], 'gk': [0, 0], 'parent': 'none', 'pspec': None, 'p': [['to_list']]}),
 ('D12', 'C01', 'grouped', 'filter-truthy-int', 'filter with a predicate returning 1 / 0 kept the odd items on a plain observable and dropped every item on a multiplexed one', {'tin': 'int', 'p': [['filter_mod', 2, 0, 'int']], 'items': [[0, 1], [1, 3], [0, 2]]}),
 ('D12', 'C01', 'grouped', 'filter-numpy-bool', 'filter on numpy scalar items (the comparison returns numpy.bool_) dropped every item on a multiplexed observable', {'tin': 'int', 'p': [['filter_gt', 0]], 'items': [[0, 1], [1, 3]], 'numpy': True}),
 ('D10', 'C16', 'roundtrip', 'zstd-empty-chunk-after-eos', 'zstd.decompress failed on an empty chunk after the end-of-stream marker', {'codec': 'zstd', 'chunks': [[7, 'text', 1]], 'cuts': [1000000]}),
]

def fix_commit(d):
    for line in git('log', '--format=%h %s').splitlines():
        h, s = line.split(' ', 1)
        if s.startswith(FIXES[d]):
            return h
    raise SystemExit('fix commit for %s not found' % d)

def write():
    findings = []
    for d, pid, sub, name, what, case in W:
        os.makedirs(os.path.join(VERIF, 'regress', pid), exist_ok=True)
        fn = os.path.join(VERIF, 'regress', pid, '%s-%s.json' % (d, name))
        json.dump({'property': pid, 'sub': sub, 'case': case, 'defect': d, 'what': what}, open(fn, 'w'), indent=1, sort_keys=True)
        findings.append({'property_id': pid, 'key': '%s-%s' % (d, name), 'status': 'fixed', 'commit': fix_commit(d), 'what': what,
                         'line': 'fixed: property=%s %s %s' % (pid, fix_commit(d), what),
                         'witness': {'sub': sub, 'case': case}})
    json.dump({'comment': 'Genuine defects of maki-nage/rxsci found by the checks. status=fixed entries suppress nothing: their witness is replayed '
               'on every run and a failure is reported as VIOLATION. There are no open findings.', 'findings': findings},
              open(os.path.join(VERIF, 'known_findings.json'), 'w'), indent=1)
    print('wrote %d witnesses' % len(W))

def run_replay(repo, path):
    r = subprocess.run(['/venv/bin/python', os.path.join(VERIF, 'run.py'), 'replay', path], env=dict(os.environ, VERIF_REPO=repo),
                       stdout=subprocess.PIPE, stderr=subprocess.STDOUT)
    return r.returncode, r.stdout.decode()

def verify():
    ok = True
    cache = {}
    for d, pid, sub, name, what, case in W:
        fn = os.path.join(VERIF, 'regress', pid, '%s-%s.json' % (d, name))
        parent = git('rev-parse', '--short', fix_commit(d) + '^')
        if parent not in cache:
            t = tempfile.mkdtemp(prefix='rxsci_w_')
            subprocess.run('git -C /repo archive %s rxsci | tar -x -C %s' % (parent, t), shell=True, check=True)
            cache[parent] = t
        rc_old, out_old = run_replay(cache[parent], fn)
        rc_new, _ = run_replay('/repo', fn)
        good = rc_old == 1 and rc_new == 0
        ok = ok and good
        print('%-4s %s/%-10s %-28s before-fix(%s): %s   now: %s   %s' % (d, pid, sub, name, parent, 'FAILS' if rc_old == 1 else 'rc=%d' % rc_old,
              'passes' if rc_new == 0 else 'rc=%d' % rc_new, '' if good else '<<<<<< UNEXPECTED'))
        if rc_old != 1:
            print(out_old[-600:])
    for t in cache.values():
        shutil.rmtree(t, ignore_errors=True)
    return 0 if ok else 1

if __name__ == '__main__':
    sys.exit(write() if sys.argv[1] == 'write' else verify())
