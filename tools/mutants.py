#!/venv/bin/python
"""Sensitivity of the checks: apply a realistic breaking change to a scratch copy
of /repo, confirm that the repository's own test-suite still passes there, run the
property's quick check against the copy (VERIF_REPO) and expect exit 1.

    mutants.py list
    mutants.py run [name ...] [--no-tests] [--pid C05] [-j N]

Results are merged into /verif/sensitivity.json.  Scratch copies live under
/tmp/rxsci_mut_* and are removed after each mutant.
"""
import json
import os
import shutil
import subprocess
import sys
import tempfile
import concurrent.futures as cf

VERIF = os.path.dirname(os.path.dirname(os.path.abspath(__file__)))
sys.path.insert(0, VERIF)
from tools.mutant_table import MUTANTS  # noqa

PY = '/venv/bin/python'


def run_one(name, run_tests=True):
    m = MUTANTS[name]
    d = tempfile.mkdtemp(prefix='rxsci_mut_')
    out = {'name': name, 'property': m['pid'], 'what': m['what']}
    try:
        for x in ('rxsci', 'tests', 'setup.cfg', 'pyproject.toml'):
            src = os.path.join('/repo', x)
            if os.path.isdir(src):
                shutil.copytree(src, os.path.join(d, x), ignore=shutil.ignore_patterns('__pycache__'))
            elif os.path.exists(src):
                shutil.copy(src, d)
        for edit in m['edits']:
            p = os.path.join(d, edit['file'])
            s = open(p).read()
            if s.count(edit['old']) != edit.get('count', 1):
                out['error'] = 'pattern occurs %d times in %s' % (s.count(edit['old']), edit['file'])
                return out
            open(p, 'w').write(s.replace(edit['old'], edit['new']))
        if run_tests:
            r = subprocess.run([PY, '-m', 'pytest', '-q', '-x', '-p', 'no:cacheprovider', '--timeout=900'],
                               cwd=d, stdout=subprocess.PIPE, stderr=subprocess.STDOUT,
                               env=dict(os.environ, PYTHONPATH=d))
            tail = r.stdout.decode(errors='replace').strip().splitlines()[-1:]
            out['repo_tests'] = 'pass' if r.returncode == 0 else 'FAIL'
            out['repo_tests_tail'] = tail
        pids = m['pid'] if isinstance(m['pid'], list) else [m['pid']]
        out['checks'] = {}
        for pid in pids:
            cmd = [PY, os.path.join(VERIF, 'run.py'), 'check', pid, '--tier', 'quick']
            for s in m.get('subs', []):
                cmd += ['--sub', s]
            r = subprocess.run(cmd, cwd=VERIF, stdout=subprocess.PIPE, stderr=subprocess.STDOUT,
                               env=dict(os.environ, VERIF_REPO=d, VERIF_SEED=os.environ.get('VERIF_SEED', '1')))
            txt = r.stdout.decode(errors='replace')
            vio = [l for l in txt.splitlines() if l.startswith('VIOLATION') or l.startswith('  ' + pid)]
            out['checks'][pid] = {'exit': r.returncode, 'lines': vio[:6]}
            if r.returncode == 2:
                out['checks'][pid]['tail'] = txt[-1500:]
        out['killed'] = any(c['exit'] == 1 for c in out['checks'].values())
    finally:
        shutil.rmtree(d, ignore_errors=True)
        # evidence/replays written by mutant runs are not evidence about /repo
    return out


def main(argv):
    if len(argv) < 2 or argv[1] == 'list':
        for k, m in MUTANTS.items():
            print(k, m['pid'], '-', m['what'])
        return 0
    names = [a for a in argv[2:] if not a.startswith('-')]
    run_tests = '--no-tests' not in argv
    if '--pid' in argv:
        pid = argv[argv.index('--pid') + 1]
        names = [n for n in names if n != pid]
        names += [k for k, m in MUTANTS.items() if pid == m['pid'] or (isinstance(m['pid'], list) and pid in m['pid'])]
    jobs = 4
    if '-j' in argv:
        jobs = int(argv[argv.index('-j') + 1])
        names = [n for n in names if n != str(jobs)]
    if not names:
        names = list(MUTANTS)
    path = os.path.join(VERIF, 'sensitivity.json')
    db = json.load(open(path)) if os.path.exists(path) else {}
    with cf.ThreadPoolExecutor(jobs) as ex:
        for out in ex.map(lambda n: run_one(n, run_tests), names):
            db[out['name']] = out
            print(json.dumps(out, indent=1))
    json.dump(db, open(path, 'w'), indent=1, sort_keys=True)
    missed = [n for n in names if not db[n].get('killed')]
    print('killed %d / %d; missed: %s' % (len(names) - len(missed), len(names), missed))
    return 0


if __name__ == '__main__':
    sys.exit(main(sys.argv))
