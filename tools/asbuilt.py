#!/venv/bin/python
"""Prints the 'as built' table of sub-checks (markdown) from the property modules and evidence files."""
import json, os, sys
VERIF = os.path.dirname(os.path.dirname(os.path.abspath(__file__)))
sys.path[:0] = [VERIF, os.environ.get('VERIF_REPO', '/repo')]
from vf import core
print('| id | sub-check | engine | quick | thorough | what it compares |')
print('|---|---|---|---|---|---|')
for i in range(1, 21):
    pid = 'C%02d' % i
    mod = core.load_property(pid)
    for s in mod.subs('thorough'):
        if s.fuzz:
            eng, q, t = 'atheris', '–', '%d runs' % s.fuzz_runs.get('thorough', 0)
        elif s.machine:
            eng, q, t = 'Hypothesis stateful', '%d×%d steps' % (s.examples['quick'], s.steps), '%d×%d' % (s.examples['thorough'], s.steps)
        elif s.enum and not s.gen:
            nq = sum(1 for _ in s.enum('quick')); nt = sum(1 for _ in s.enum('thorough'))
            eng, q, t = 'enumeration', str(nq), str(nt)
        else:
            eng, q, t = 'Hypothesis', str(s.examples['quick']), str(s.examples['thorough'])
        print('| %s | %s | %s | %s | %s | %s |' % (pid, s.name, eng, q, t, s.doc))
