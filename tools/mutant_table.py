"""Realistic breaking changes used to measure the sensitivity of the checks.
Each: pid (property expected to catch it), what, edits [{file, old, new}]."""
MUTANTS = {}


def M(name, pid, what, file, old, new, subs=(), count=1):
    MUTANTS[name] = {'pid': pid, 'what': what, 'subs': list(subs),
                     'edits': [{'file': file, 'old': old, 'new': new, 'count': count}]}


# ---- C15
M('lp_ge_gt', 'C15', 'length_prefix.unframe waits for one byte more than the frame',
  'rxsci/framing/length_prefix.py', 'if bio_len - offset - prefix_size >= size:', 'if bio_len - offset - prefix_size > size:')
M('lp_acc_drop', 'C15', 'length_prefix.unframe forgets the partial prefix when fewer than prefix_size bytes remain',
  'rxsci/framing/length_prefix.py', "                acc = bio.read()\n", "                acc = bio.read()\n                if len(acc) < prefix_size and prefix_size > 2:\n                    acc = b''\n")
M('line_tail_drop', 'C15', 'line.unframe does not deliver the unterminated last line',
  'rxsci/framing/line.py', "                if len(acc) > 0:\n                    observer.on_next(acc)\n", "")
M('line_acc_reset', 'C15', 'line.unframe loses the carry when a chunk holds no newline',
  'rxsci/framing/line.py', "                acc = lines[-1] or ''", "                acc = lines[-1] if len(lines) > 1 else ''")
