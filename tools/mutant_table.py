"""Realistic breaking changes used to measure the sensitivity of the checks.
Each: pid (property expected to catch it), what, edits [{file, old, new}]."""
MUTANTS = {}


def M(name, pid, what, file, old, new, subs=(), count=1):
    MUTANTS[name] = {'pid': pid, 'what': what, 'subs': list(subs),
                     'edits': [{'file': file, 'old': old, 'new': new, 'count': count}]}


# ---- C15
M('lp_ge_gt', 'C15', 'length_prefix.unframe waits for one byte more than the frame',
  'rxsci/framing/length_prefix.py', 'if bio_len - offset - prefix_size >= size:', 'if bio_len - offset - prefix_size > size:')
M('lp_acc_drop', 'C15', 'length_prefix.unframe forgets the partial prefix when fewer than prefix_size bytes remain',
  'rxsci/framing/length_prefix.py', "                acc = bio.read()\n", "                acc = bio.read()\n                if len(acc) < prefix_size and prefix_size > 2:\n                    acc = b''\n")
M('line_tail_drop', 'C15', 'line.unframe does not deliver the unterminated last line',
  'rxsci/framing/line.py', "                if len(acc) > 0:\n                    observer.on_next(acc)\n", "")
M('line_acc_reset', 'C15', 'line.unframe loses the carry when a chunk holds no newline',
  'rxsci/framing/line.py', "                acc = lines[-1] or ''", "                acc = lines[-1] if len(lines) > 1 else ''")

# ---- C03 / C05 / C06 (protocol and windows)
M('roll_no_full_complete', ['C03', 'C05'], 'roll never completes full windows (only at key completion)',
  'rxsci/data/roll.py', """                                i.store.set_state(state_w, (index, i.key), -1)
                                observer.on_next(rs.OnCompletedMux((index, i.key), i.store))""",
  """                                pass""")
M('split_no_final_complete', ['C03', 'C06'], 'split does not close the last segment when the key completes',
  'rxsci/data/split.py', """                elif isinstance(i, rs.OnCompletedMux):
                    current_predicate = i.store.get_state(state, i.key)
                    if current_predicate is not rs.state.markers.STATE_NOTSET:
                        observer.on_next(i._replace(key=(i.key[0], i.key)))""",
  """                elif isinstance(i, rs.OnCompletedMux):
                    current_predicate = i.store.get_state(state, i.key)""")
M('tee_complete_first_branch', ['C03', 'C08'], 'tee_map forwards OnCompletedMux when the FIRST branch completes (later branches emit after the key is complete)',
  'rxsci/operators/tee_map.py', "            elif isinstance(x, rs.OnCompletedMux):\n                if i == n-1:", "            elif isinstance(x, rs.OnCompletedMux):\n                if i == 0:")
M('time_split_double_complete', 'C03', 'time_split completes the window of a key that received no item',
  'rxsci/data/time_split.py', """                    start_timestamp = i.store.get_state(state_start, i.key)
                    if start_timestamp is not rs.state.markers.STATE_NOTSET:
                        observer.on_next(i._replace(key=(i.key[0], i.key)))
                    i.store.del_key(state_start, i.key)""", """                    observer.on_next(i._replace(key=(i.key[0], i.key)))
                    i.store.del_key(state_start, i.key)""")
M('group_by_no_flush', ['C03', 'C04'], 'group_by does not complete its groups when the parent key completes',
  'rxsci/operators/group_by.py', """                elif type(i) is rs.OnCompletedMux:
                    for k in i.store.iterate_map(state, i.key):
                        index = i.store.get_map(state, i.key, k)
                        observer.on_next(i._replace(key=(index, i.key)))
                        i.store.del_map(state, i.key, k)""", """                elif type(i) is rs.OnCompletedMux:
                    for k in i.store.iterate_map(state, i.key):
                        index = i.store.get_map(state, i.key, k)
                        i.store.del_map(state, i.key, k)""")

# ---- C05
M('roll_density_floor', 'C05', 'roll computes its slot ring size with floor instead of ceil (window not a multiple of stride)',
  'rxsci/data/roll.py', "    if window % stride:\n        density += 1\n", "    if window % stride and window < stride:\n        density += 1\n")
M('roll_ge_window', 'C05', 'roll closes a window one item late (count > window-1 becomes count > window)',
  'rxsci/data/roll.py', "                            if count == window:\n                                i.store.set_state(state_w, (index, i.key), -1)", "                            if count == window + 1:\n                                i.store.set_state(state_w, (index, i.key), -1)")

# ---- C06 / C07 / C04
M('split_is_not', 'C06', 'split compares predicate values by identity instead of !=',
  'rxsci/data/split.py', "                    elif new_predicate != current_predicate:", "                    elif new_predicate is not current_predicate:")
M('time_split_active_gt', 'C07', 'time_split: active timeout compared with > instead of >=',
  'rxsci/data/time_split.py', "new >= start + active_timeout", "new > start + active_timeout")
M('time_split_inactive_gt', 'C07', 'time_split: inactive timeout compared with > instead of >=',
  'rxsci/data/time_split.py', "new >= last + inactive_timeout", "new > last + inactive_timeout")
M('time_split_closing_no_ref', 'C07', 'time_split: a closing item does not reset the reference timestamp of the next window',
  'rxsci/data/time_split.py', """                    elif closing_mapper is not None and closing_mapper(i.item) is True:
                        i.store.set_state(state_start, i.key, new_timestamp)
""", """                    elif closing_mapper is not None and closing_mapper(i.item) is True:
""")
M('time_split_last_not_updated', 'C07', 'time_split: the last-item timestamp is not updated by ordinary items',
  'rxsci/data/time_split.py', """                    else:
                        i.store.set_state(state_last, i.key, new_timestamp)
""", """                    else:
                        pass
""")
M('group_by_type_key', 'C04', 'group_by keys its groups by (type, value): 1, 1.0 and True land in different groups',
  'rxsci/operators/group_by.py', "                    map_key = key_mapper(i.item)\n", "                    map_key = key_mapper(i.item)\n                    map_key = (type(map_key).__name__, map_key)\n")
M('group_by_reverse_flush', 'C04', 'group_by completes open groups in reverse order of first appearance',
  'rxsci/operators/group_by.py', """                elif type(i) is rs.OnCompletedMux:
                    for k in i.store.iterate_map(state, i.key):""", """                elif type(i) is rs.OnCompletedMux:
                    for k in reversed(list(i.store.iterate_map(state, i.key))):""")

# ---- C09
M('scan_no_deepcopy', 'C09', 'scan_mux uses the seed object itself instead of a deep copy (keys share a mutable seed)',
  'rxsci/operators/scan.py', """                        if value is rs.state.markers.STATE_NOTSET:
                            value = seed() if callable(seed) else copy.deepcopy(seed)
                        acc = accumulator(value, i.item)""", """                        if value is rs.state.markers.STATE_NOTSET:
                            value = seed() if callable(seed) else seed
                        acc = accumulator(value, i.item)""")
M('scan_shallow_copy', 'C09', 'scan_mux copies the seed shallowly (nested mutable seeds are shared)',
  'rxsci/operators/scan.py', """                        if value is rs.state.markers.STATE_NOTSET:
                            value = seed() if callable(seed) else copy.deepcopy(seed)
                        acc = accumulator(value, i.item)""", """                        if value is rs.state.markers.STATE_NOTSET:
                            value = seed() if callable(seed) else copy.copy(seed)
                        acc = accumulator(value, i.item)""")
M('scan_obs_no_deepcopy', 'C09', 'scan_obs (plain) uses the seed object itself: a second subscription continues the first',
  'rxsci/operators/scan.py', """                value = state
                if has_state is False:
                    value = seed() if callable(seed) else copy.deepcopy(seed)
                state = accumulator(value, i)""", """                value = state
                if has_state is False:
                    value = seed() if callable(seed) else seed
                state = accumulator(value, i)""")
M('scan_term_empty_skipped', 'C09', 'scan_mux does not call the terminator for a key that received no item',
  'rxsci/operators/scan.py', """                    if terminator:
                        value = i.store.get_state(state, i.key)
                        if value is rs.state.markers.STATE_NOTSET:
                            value = seed() if callable(seed) else copy.deepcopy(seed)
                        acc = terminator(value)""", """                    if terminator and i.store.get_state(state, i.key) is not rs.state.markers.STATE_NOTSET:
                        value = i.store.get_state(state, i.key)
                        acc = terminator(value)""")
M('scan_factory_cached', 'C09', 'scan_mux calls a seed factory once and re-uses the object for every key',
  'rxsci/operators/scan.py', """def scan_mux(accumulator, seed, reduce, terminator):
    def _scan(source):""", """def scan_mux(accumulator, seed, reduce, terminator):
    if callable(seed):
        _cached = seed()
        seed = lambda: _cached
    def _scan(source):""")
M('count_from_one', 'C09', 'count starts at 1 for keys in a re-used slot... (seed 0 replaced by stale state): count seeds with 1 when reduce',
  'rxsci/operators/count.py', "    return scan(lambda acc, i: acc + 1, 0, reduce=reduce)", "    return scan(lambda acc, i: acc + 1, 1 if reduce else 0, reduce=reduce)")

# ---- C10
M('take_mux_off_by_one', ['C10', 'C01'], 'take_mux emits one item too many (countdown compared with >= 0)',
  'rxsci/operators/take.py', "                    if value > 0:", "                    if value >= 0:")
M('lag_pop_early', 'C10', 'lag(n) pops its queue one step early (lag n-1 after warm-up)',
  'rxsci/data/lag.py', "                    if len(q) > size:", "                    if len(q) >= size and size > 2:")
M('pad_end_first_item', 'C10', 'pad_end pads with the first item of the key instead of the last',
  'rxsci/data/pad.py', """                if type(i) is rs.OnNextMux:
                    i.store.set_state(state, i.key, i.item)
                    observer.on_next(i)""", """                if type(i) is rs.OnNextMux:
                    if i.store.get_state(state, i.key) is rs.state.markers.STATE_NOTSET:
                        i.store.set_state(state, i.key, i.item)
                    observer.on_next(i)""")
M('distinct_by_repr_type', 'C10', 'distinct keys its set by (type name, value): None/0 handling unchanged but strings collide with nothing... uses id() for str',
  'rxsci/operators/distinct.py', "                    if key not in _state:\n                        _state.add(key)", "                    if (id(key) if isinstance(key, str) and len(key) > 1 else key) not in _state:\n                        _state.add(id(key) if isinstance(key, str) and len(key) > 1 else key)")
M('start_with_every_item', 'C10', 'start_with forgets that it already emitted the padding when the item is falsy (0 / None)',
  'rxsci/operators/start_with.py', "                    if s is rs.state.markers.STATE_NOTSET:\n                        i.store.set_state(state, i.key, True)", "                    if s is rs.state.markers.STATE_NOTSET:\n                        i.store.set_state(state, i.key, True) if i.item else None")
M('sort_unstable_reverse', 'C10', 'sort(reverse=True) sorts ascending then reverses (equal keys end up in reverse source order)',
  'rxsci/data/sort.py', "rs.ops.map(lambda i: sorted(i, key=key, reverse=reverse)),", "rs.ops.map(lambda i: sorted(i, key=key)[::-1] if reverse else sorted(i, key=key)),")
M('last_mux_keeps_state', ['C10', 'C02'], 'last_mux does not delete its state at completion and add_key keeps a stale value... emits previous lifetime last on empty key',
  'rxsci/state/memory_store.py', "        self.state[key[0]] = rs.state.markers.STATE_NOTSET.value()\n        self.keys[key[0]] = key\n        if self.is_mapper:", "        if self.data_type != 'obj' or self.state[key[0]] == rs.state.markers.STATE_CLEARED.value():\n            self.state[key[0]] = rs.state.markers.STATE_NOTSET.value()\n        self.keys[key[0]] = key\n        if self.is_mapper:")

# ---- C12
M('variance_sum_of_squares', 'C12', 'variance computed with the textbook sum-of-squares formula (catastrophic cancellation with a large offset)',
  'rxsci/math/variance.py', """        if m is None:
            m = i
        else:
            m1 = m
            m = m + (i - m) / k
            s = s + (i - m1)*(i - m)

        return (m, s, k)""", """        if m is None:
            m = (i, i * i)
            s = 0
        else:
            m = (m[0] + i, m[1] + i * i)
            s = m[1] - m[0] * m[0] / k

        return (m, s, k)""")
M('variance_div_n', 'C12', 'variance divides by n instead of n-1',
  'rxsci/math/variance.py', "acc[1] / (acc[2]-1)", "acc[1] / (acc[2])")
M('mean_int_division', 'C12', 'mean accumulates the count as a float that saturates: divides by count-1 when count > 1000',
  'rxsci/math/mean.py', "acc[0] / acc[1] if acc is not None else None", "acc[0] / (acc[1] if acc[1] <= 1000 else acc[1] - 1) if acc is not None else None")
M('sum_float32', 'C12', 'sum accumulates in single precision',
  'rxsci/math/sum.py', "        return acc + i\n", "        import struct\n        return struct.unpack('f', struct.pack('f', acc + i))[0]\n")
M('fvariance_ddof', 'C12', 'formal.variance divides by n-1',
  'rxsci/math/formal/__init__.py', "    return sum(m) / len(x) if len(x) > 0 else None", "    return (sum(m) / (len(x) - (1 if n == 2 and len(x) > 1 else 0))) if len(x) > 0 else None")
M('min_ignores_negative_zero_first', 'C12', 'max returns the first item when later items are equal... max uses >= and abs',
  'rxsci/math/max.py', "        if acc is None or i > acc:", "        if acc is None or abs(i) > abs(acc):")

# ---- C13
M('scan_error_resets_state', 'C13', 'scan_mux restarts the fold from the seed after the accumulator raised',
  'rxsci/operators/scan.py', """                    except Exception as e:
                        observer.on_next(rs.OnErrorMux(i.key, e, i.store))
                elif type(i) is rs.OnCreateMux:
                    i.store.add_key(state, i.key)""", """                    except Exception as e:
                        i.store.add_key(state, i.key)
                        observer.on_next(rs.OnErrorMux(i.key, e, i.store))
                elif type(i) is rs.OnCreateMux:
                    i.store.add_key(state, i.key)""")
M('filter_error_as_false', 'C13', 'filter_mux treats a raising predicate as False (no mux error)',
  'rxsci/operators/filter.py', """                    except Exception as e:
                        observer.on_next(rs.OnErrorMux(i.key, e, i.store))""", """                    except Exception as e:
                        pass""")
M('error_map_keeps_error', 'C13', 'error.map emits the mapped item and still forwards the error',
  'rxsci/error/map.py', """                        observer.on_next(rs.OnNextMux(
                            key=i.key,
                            item=ii,
                            store=i.store,
                        ))""", """                        observer.on_next(rs.OnNextMux(
                            key=i.key,
                            item=ii,
                            store=i.store,
                        ))
                        observer.on_next(i)""")
M('router_no_completion', 'C13', 'error router never completes the dead-letter observable',
  'rxsci/error/router.py', """                def on_completed():
                    if dead_letter_observer is not None:
                        dead_letter_observer.on_completed()
""", """                def on_completed():
""")
M('demux_swallows_error', 'C13', 'demux_observable drops unhandled mux errors',
  'rxsci/operators/multiplex.py', """                if type(i) is rs.OnNextMux:
                    observer.on_next(i.item)
                elif type(i) is rs.OnErrorMux:
                    observer.on_error(i.error)

            return source.subscribe(
                on_next=on_next,
                on_completed=observer.on_completed,""", """                if type(i) is rs.OnNextMux:
                    observer.on_next(i.item)

            return source.subscribe(
                on_next=on_next,
                on_completed=observer.on_completed,""")
M('map_error_twice', 'C13', 'map_mux emits the mux error and also the unmapped item',
  'rxsci/operators/map.py', """                    except Exception as e:
                        observer.on_next(rs.OnErrorMux(i.key, e, i.store))""", """                    except Exception as e:
                        observer.on_next(rs.OnErrorMux(i.key, e, i.store))
                        observer.on_next(i)""")

# ---- C14
M('store_bool_as_int', 'C14', 'MemoryStore.get returns the raw array value for bool states (1 instead of True)',
  'rxsci/state/memory_store.py', "        if self.data_type is bool:\n            value = bool(value)\n", "")
M('store_ghost_indices', 'C14', 'add_key marks the skipped indices of a sparse append as NOTSET instead of CLEARED (iterate enumerates slots never added)',
  'rxsci/state/memory_store.py', """                self.values.append(0)
                self.state.append(rs.state.markers.STATE_CLEARED.value())""", """                self.values.append(0)
                self.state.append(rs.state.markers.STATE_NOTSET.value())""")
M('store_map_index_per_key', 'C14', 'add_map numbers the groups per parent key (two parent keys hand out the same index)',
  'rxsci/state/memory_store.py', "        index, self.next_index, self.free_slots = new_index(self.next_index, self.free_slots)\n", "        index = len(self.values[key[0]])\n")
M('store_del_keeps_set', 'C14', 'del_key leaves the slot marked and add_key only resets cleared slots (a re-added slot reads the old value)',
  'rxsci/state/memory_store.py', "        self.state[key[0]] = rs.state.markers.STATE_NOTSET.value()\n        self.keys[key[0]] = key\n        if self.is_mapper:", "        if self.state[key[0]] != rs.state.markers.STATE_SET.value():\n            self.state[key[0]] = rs.state.markers.STATE_NOTSET.value()\n        self.keys[key[0]] = key\n        if self.is_mapper:")
M('store_default_shared_typed', 'C14', 'a typed default of 0 is treated as "no default" (falsy test instead of "is not None")',
  'rxsci/state/memory_store.py', "        elif self.default_value is not None:", "        elif self.default_value:")
M('store_uint_signed', 'C14', "'uint' states use a signed array (values >= 2**63 overflow)",
  'rxsci/state/memory_store.py', "            self.create_values = functools.partial(array, 'Q')", "            self.create_values = functools.partial(array, 'q')")

# ---- C16
M('z_no_eof_check', 'C16', 'z.decompress completes even when the gzip stream is truncated',
  'rxsci/compression/z.py', "                    if not decompressor.eof:", "                    if False:")
M('zstd_eof_only_when_data', 'C16', 'zstd.decompress only checks the end-of-stream marker when some data was produced',
  'rxsci/compression/zstd.py', "                    if not decompressor.eof:", "                    if not decompressor.eof and decompressor.unused_data == b'x':")
M('z_compress_flush_lost', 'C16', 'z.compress drops the output of flush() when it is shorter than 16 bytes (small inputs lose their trailer)',
  'rxsci/compression/z.py', "                    data = compressor.flush()\n                    observer.on_next(data)", "                    data = compressor.flush()\n                    if len(data) >= 16:\n                        observer.on_next(data)")
M('zstd_skip_tiny_chunks', 'C16', 'zstd.decompress ignores 1-byte input chunks',
  'rxsci/compression/zstd.py', "                    data = decompressor.decompress(i) if len(i) > 0 else b''", "                    data = decompressor.decompress(i) if len(i) > 1 else b''")

# ---- C17
M('decode_not_incremental', 'C17', 'decode defaults to incremental=False (each chunk decoded on its own)',
  'rxsci/data/codec.py', "def decode(encoding='utf8', incremental=True):", "def decode(encoding='utf8', incremental=False):")
M('encode_new_encoder_per_item', 'C17', 'encode creates a new incremental encoder per item (BOM repeated)',
  'rxsci/data/codec.py', "                if incremental:\n                    data = encoder.encode(i)", "                if incremental:\n                    data = codecs.getincrementalencoder(encoding)().encode(i)")
M('decode_no_final_flush', 'C17', 'decode replaces undecodable tail bytes at a chunk boundary (errors=replace on the incremental decoder)',
  'rxsci/data/codec.py', "                decoder = codecs.getincrementaldecoder(encoding)()", "                decoder = codecs.getincrementaldecoder(encoding)('replace')\n                decoder_decode = decoder.decode\n                decoder.decode = lambda b, final=False: decoder_decode(b, True)")

# ---- C01 / C02 / C08 / C11 (pipeline-level)
M('first_mux_marker', 'C01', 'first_mux tests its marker with "is not True" on a bool store that returns ints for typed default... emits the first TWO items when the first item is falsy',
  'rxsci/operators/first.py', """                    if value is False:
                        observer.on_next(i)
                        i.store.set_state(state, i.key, True)""", """                    if value is False:
                        observer.on_next(i)
                        i.store.set_state(state, i.key, bool(i.item) or i.item is None)""")
M('last_mux_none_item', ['C01', 'C10'], 'last_mux does not emit when the last item is None (tests the value instead of the NOTSET marker)',
  'rxsci/operators/last.py', "                    if value is not rs.state.markers.STATE_NOTSET:\n                        observer.on_next(rs.OnNextMux(i.key, value, i.store))", "                    if value is not rs.state.markers.STATE_NOTSET and value is not None:\n                        observer.on_next(rs.OnNextMux(i.key, value, i.store))")
M('flat_map_mux_reversed_pairs', 'C01', 'flat_map_mux materialises tuples in reverse order',
  'rxsci/operators/flat_map.py', "                    for ii in i.item:\n                        observer.on_next(i._replace(item=ii))", "                    for ii in (reversed(i.item) if isinstance(i.item, tuple) else i.item):\n                        observer.on_next(i._replace(item=ii))")
M('tee_zip_no_clear', ['C08', 'C01'], 'tee_map mux zip does not clear the has_next flags of the LAST branch after emitting a tuple',
  'rxsci/operators/tee_map.py', "                            for index in range(n):\n                                has_next[base_index+index] = False\n                                queue[base_index+index] = None", "                            for index in range(n - 1):\n                                has_next[base_index+index] = False\n                                queue[base_index+index] = None")
M('tee_branch_order', 'C08', 'tee_map subscribes its branches in reverse order (merge emits branch outputs in reverse branch order)',
  'rxsci/operators/tee_map.py', "        for i in range(n):\n            subscriptions[i] = sources[i].subscribe_(\n                on_next=functools.partial(on_next, i),", "        for i in reversed(range(n)):\n            subscriptions[i] = sources[i].subscribe_(\n                on_next=functools.partial(on_next, i),")
M('tee_plain_combine_flags', 'C08', 'plain tee_map combine_latest emits only once every branch has produced (behaves like zip without reset)',
  'rxsci/operators/tee_map.py', "            elif combine is True:\n                queue[i] = x\n                has_next[i] = True\n                res = tuple(queue)\n                observer.on_next(res)", "            elif combine is True:\n                queue[i] = x\n                has_next[i] = True\n                if all(has_next):\n                    res = tuple(queue)\n                    observer.on_next(res)")
M('scan_reduce_emits_each', ['C11', 'C09'], 'scan_mux with reduce=True also emits at every 4th item',
  'rxsci/operators/scan.py', "                        if reduce is False:\n                            observer.on_next(rs.OnNextMux(i.key, acc, i.store))\n                    except Exception as e:", "                        if reduce is False or (isinstance(acc, int) and not isinstance(acc, bool) and acc == 4):\n                            observer.on_next(rs.OnNextMux(i.key, acc, i.store))\n                    except Exception as e:")
M('split_buffers_segment', 'C11', 'split closes a segment one item late when the new predicate is falsy',
  'rxsci/data/split.py', "                    elif new_predicate != current_predicate:", "                    elif new_predicate != current_predicate and not (new_predicate == 0 and current_predicate == 1):")

# ---- C18 / C19 / C20
M('csv_strip_fields', 'C18', 'csv line parser strips blanks around unquoted AND quoted fields',
  'rxsci/container/csv.py', "                    i = i[1:-1]\n", "                    i = i[1:-1].strip()\n")
M('csv_dump_float_repr', 'C18', 'csv.dump prints floats with 15 significant digits',
  'rxsci/container/csv.py', "                    else:\n                        f = str(f)\n                    ii.append(f)", "                    else:\n                        f = '%.15g' % f if isinstance(f, float) else str(f)\n                    ii.append(f)")
M('json_dump_ascii_newline', 'C19', 'json.dump post-processes U+2028 into a real newline',
  'rxsci/container/json.py', "                    line = line.decode()\n", "                    line = line.decode().replace('\\u2028', '\\n')\n")
M('json_read_chunk_decode', 'C19', 'json.load_from_file decodes each 64K chunk independently (characters cut at a chunk boundary are corrupted)',
  'rxsci/container/json.py', "                rs.data.decode(encoding),\n                line.unframe(),", "                rs.data.decode(encoding, incremental=False),\n                line.unframe(),")
M('parquet_row_group_drop', 'C20', 'parquet writer passes row_group_size as batch size limit and drops the remainder of a batch',
  'rxsci/container/parquet.py', "                        writer.write(i, row_group_size=row_group_size)", "                        writer.write(i.slice(0, row_group_size) if row_group_size and row_group_size > 50 else i, row_group_size=row_group_size)")
M('parquet_load_skips_last_partial', 'C20', 'load_from_file stops after the first short batch... drops rows when batch_size divides nothing',
  'rxsci/container/parquet.py', "                    for r in rows:\n                        observer.on_next(r)", "                    for r in (rows if len(rows) != batch_size - 1 else rows[:-1]):\n                        observer.on_next(r)")


# Tried and found EQUIVALENT (no observable change), therefore not listed: dropping roll's counter reset at key completion
# (add_key resets it), tee_map forwarding OnCreateMux from the last branch, dropping pad_start's del_key (add_key resets),
# swapping the two unescape replaces of the csv parser (exhaustively equal on all dumped strings up to length 6).
