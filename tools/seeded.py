#!/venv/bin/python
"""Seeded breaking changes (written by independent sub-agents that saw only the property text).

    seeded.py import <out_dir> <k> <name>   copy patch<k>.diff/demo<k>.py/meta<k>.json into /verif/seeded/<name>/
    seeded.py verify <name>...              confirm: applies, repo tests pass with it, demo fails with it and passes without
    seeded.py check  <name>... [--all] [--tier quick]
                                            run the property's check (or every check with --all) against a scratch
                                            export of /repo with the patch applied (VERIF_REPO); records results in meta.json
    seeded.py multiseed <name>... [--seeds 1,2,3]   own-property check at several VERIF_SEED values
    seeded.py inrepo <name>                 the same on /repo itself: git apply, run the check, git checkout -- . (nothing else may run)
    seeded.py table                         markdown summary
With VERIF_SEEDED_DIR=benign the same commands work on /verif/benign/: changes written to be HARMLESS (the property still holds);
verify then expects the demo to pass with and without the patch, and every check is expected to stay quiet on them.
"""
import glob
import json
import os
import shutil
import subprocess
import sys
import tempfile

VERIF = os.path.dirname(os.path.dirname(os.path.abspath(__file__)))
SEEDED = os.path.join(VERIF, os.environ.get('VERIF_SEEDED_DIR', 'seeded'))      # 'benign' for the harmless changes
PY = '/venv/bin/python'
ALL = ['C%02d' % i for i in range(1, 21)]


def sh(cmd, **kw):
    return subprocess.run(cmd, stdout=subprocess.PIPE, stderr=subprocess.STDOUT, **kw)


def scratch(patch=None):
    d = tempfile.mkdtemp(prefix='rxsci_seed_')
    subprocess.run('git -C /repo archive HEAD | tar -x -C %s' % d, shell=True, check=True)
    subprocess.run(['git', 'init', '-q'], cwd=d, check=True)
    if patch:
        r = sh(['git', 'apply', '--whitespace=nowarn', patch], cwd=d)
        if r.returncode != 0:
            shutil.rmtree(d)
            raise RuntimeError('patch does not apply: ' + r.stdout.decode())
    return d


def meta_of(name):
    p = os.path.join(SEEDED, name, 'meta.json')
    return json.load(open(p)) if os.path.exists(p) else {}


def save_meta(name, m):
    json.dump(m, open(os.path.join(SEEDED, name, 'meta.json'), 'w'), indent=1, sort_keys=True)


def cmd_import(out_dir, k, name):
    d = os.path.join(SEEDED, name)
    os.makedirs(d, exist_ok=True)
    shutil.copy(os.path.join(out_dir, 'patch%s.diff' % k), os.path.join(d, 'patch.diff'))
    shutil.copy(os.path.join(out_dir, 'demo%s.py' % k), os.path.join(d, 'demo.py'))
    m = json.load(open(os.path.join(out_dir, 'meta%s.json' % k)))
    m = {'property': m.get('property'), 'files': m.get('files'), 'summary': m.get('summary'), 'needs': m.get('needs'),
         'author': 'independent sub-agent given only the property record', 'author_ran': m.get('ran'),
         **{k: m[k] for k in ('visible_difference', 'why_harmless') if k in m}}
    save_meta(name, m)
    print('imported', name)


def cmd_verify(name):
    d = os.path.join(SEEDED, name)
    m = meta_of(name)
    out = {}
    t = scratch(os.path.join(d, 'patch.diff'))
    try:
        env = dict(os.environ, PYTHONPATH=t)
        r = sh([PY, '-m', 'pytest', '-q', '-p', 'no:cacheprovider', '--timeout=900'], cwd=t, env=env)
        tail = r.stdout.decode(errors='replace').strip().splitlines()[-1]
        out['repo_tests_with_patch'] = tail
        out['repo_tests_pass'] = r.returncode == 0
        r = sh([PY, os.path.join(d, 'demo.py')], cwd=t, env=env)
        out['demo_with_patch_rc'] = r.returncode
    finally:
        shutil.rmtree(t, ignore_errors=True)
    t = scratch()
    try:
        r = sh([PY, os.path.join(d, 'demo.py')], cwd=t, env=dict(os.environ, PYTHONPATH=t))
        out['demo_pristine_rc'] = r.returncode
    finally:
        shutil.rmtree(t, ignore_errors=True)
    if os.environ.get('VERIF_SEEDED_DIR') == 'benign':      # a harmless change: the demo passes with and without it
        out['confirmed'] = bool(out['repo_tests_pass'] and out['demo_with_patch_rc'] == 0 and out['demo_pristine_rc'] == 0)
    else:
        out['confirmed'] = bool(out['repo_tests_pass'] and out['demo_with_patch_rc'] != 0 and out['demo_pristine_rc'] == 0)
    m['verified_by_me'] = out
    save_meta(name, m)
    print(name, json.dumps(out))
    return out['confirmed']


def run_checks(repo, pids, tier, seed='1'):
    res = {}
    for pid in pids:
        r = sh([PY, os.path.join(VERIF, 'run.py'), 'check', pid, '--tier', tier], cwd=VERIF,
               env=dict(os.environ, VERIF_REPO=repo, VERIF_SEED=seed))
        txt = r.stdout.decode(errors='replace')
        lines = [l.strip() for l in txt.splitlines() if l.startswith('  ' + pid + '/')]
        res[pid] = {'exit': r.returncode, 'first': lines[:3]}
        if r.returncode == 2:
            res[pid]['tail'] = txt[-800:]
    return res


def cmd_check(name, all_checks=False, tier='quick'):
    d = os.path.join(SEEDED, name)
    m = meta_of(name)
    pids = ALL if all_checks else [m['property']]
    t = scratch(os.path.join(d, 'patch.diff'))
    try:
        res = run_checks(t, pids, tier)
    finally:
        shutil.rmtree(t, ignore_errors=True)
    key = 'checks_%s' % tier
    m.setdefault(key, {}).update(res)
    m['caught_by'] = sorted(p for p, r in m[key].items() if r['exit'] == 1)
    m['caught_by_own_property_check'] = m[key].get(m['property'], {}).get('exit') == 1
    save_meta(name, m)
    print(name, 'own:', m[key].get(m['property'], {}).get('exit'), 'caught_by:', m['caught_by'], (m[key].get(m['property'], {}).get('first') or [''])[:1])
    return m


def cmd_multiseed(name, seeds, tier='quick'):
    """own-property check at several VERIF_SEED values: how much of the detection is luck of one seed?"""
    d = os.path.join(SEEDED, name)
    m = meta_of(name)
    t = scratch(os.path.join(d, 'patch.diff'))
    try:
        res = {s_: run_checks(t, [m['property']], tier, seed=s_)[m['property']]['exit'] for s_ in seeds}
    finally:
        shutil.rmtree(t, ignore_errors=True)
    m.setdefault('own_by_seed_%s' % tier, {}).update(res)
    save_meta(name, m)
    print(name, 'own check exit by VERIF_SEED:', res)


def cmd_inrepo(name, tier='quick'):
    d = os.path.join(SEEDED, name)
    m = meta_of(name)
    r = sh(['git', '-C', '/repo', 'status', '--porcelain'])
    if r.stdout.strip():
        raise SystemExit('/repo is not clean')
    r = sh(['git', '-C', '/repo', 'apply', '--whitespace=nowarn', os.path.join(d, 'patch.diff')])
    if r.returncode:
        raise SystemExit(r.stdout.decode())
    try:
        res = run_checks('/repo', [m['property']], tier)
    finally:
        sh(['git', '-C', '/repo', 'checkout', '--', '.'])
    m['inrepo_%s' % tier] = res
    save_meta(name, m)
    print(name, json.dumps(res)[:300])


def cmd_table():
    print('| seeded change | property | what it needs | caught by its property check (quick, seed 1) | other checks known to catch it |')
    print('|---|---|---|---|---|')
    import re

    def order(n):
        a, b = re.match(r'C(\d+)-(\w+)', n).groups()
        return (int(a), int(b) if b.isdigit() else 99, b)
    for n in sorted((os.path.basename(d) for d in glob.glob(os.path.join(SEEDED, 'C*'))), key=order):
        m = meta_of(n)
        if not m:
            continue
        own = m.get('caught_by_own_property_check')
        cross = m.get('cross_quick_at_7f54aef')
        others = sorted(set(p for p in (cross if cross is not None else m.get('caught_by', [])) if p != m['property']))
        col = ' '.join(others) if (cross is not None or len(m.get('checks_quick', {})) > 1) else 'not measured'
        what = (m.get('needs') or m.get('visible_difference') or '').replace('|', '/').replace('\n', ' ')[:160]
        print('| %s | %s | %s | %s | %s |' % (n, m['property'], what,
              'yes' if own else ('obsolete (harmless since fix D12, see meta.json)' if m.get('obsolete') else ('not claimed (outside the asserted domain, see meta.json)' if m.get('not_claimed') else ('NO (known miss, see meta.json)' if m.get('missed') else ('NO' if own is not None else '?')))), col))


if __name__ == '__main__':
    a = sys.argv[1:]
    if a[0] == 'import':
        cmd_import(a[1], a[2], a[3])
    elif a[0] == 'verify':
        ok = all([cmd_verify(n) for n in a[1:]])
        sys.exit(0 if ok else 1)
    elif a[0] == 'check':
        names = [x for x in a[1:] if not x.startswith('--')]
        tier = a[a.index('--tier') + 1] if '--tier' in a else 'quick'
        names = [n for n in names if n != tier]
        for n in names:
            cmd_check(n, '--all' in a, tier)
    elif a[0] == 'multiseed':
        seeds = a[a.index('--seeds') + 1].split(',') if '--seeds' in a else ['1', '2', '3']
        for n in [x for x in a[1:] if not x.startswith('--') and ',' not in x and not x.isdigit()]:
            cmd_multiseed(n, seeds)
    elif a[0] == 'inrepo':
        cmd_inrepo(a[1])
    elif a[0] == 'table':
        cmd_table()
