"""Deterministic byte/text expansion from drawn integers (SHA-256 counter): keeps cases small and JSON-able."""
import hashlib


def rand_bytes(seed, n):
    out = bytearray()
    c = 0
    while len(out) < n:
        out += hashlib.sha256(b'%d/%d' % (seed, c)).digest()
        c += 1
    return bytes(out[:n])


def make_chunk(spec):
    """spec = [size, kind, seed]; kind: 'zero' | 'text' | 'rand' | 'mixed'"""
    n, kind, seed = spec
    if kind == 'zero':
        return bytes(n)
    if kind == 'rand':
        return rand_bytes(seed, n)
    if kind == 'text':
        words = [b'alpha ', b'beta,', b'"gamma"\n', b'12345;', b'\xc3\xa9t\xc3\xa9 ']
        out = bytearray()
        r = rand_bytes(seed, max(1, n // 4 + 1))
        i = 0
        while len(out) < n:
            out += words[r[i % len(r)] % len(words)]
            i += 1
        return bytes(out[:n])
    # mixed: compressible run followed by noise
    h = n // 2
    return bytes([seed % 251]) * h + rand_bytes(seed, n - h)


def rechunk(stream, cuts_ppm):
    """cuts in parts-per-million of the length (repeats give empty chunks; 1000000 = after the last byte)."""
    n = len(stream)
    pos = [0] + sorted(min(n, c * n // 1000000) if c < 1000000 else n for c in cuts_ppm) + [n]
    return [stream[a:b] for a, b in zip(pos, pos[1:])]
