"""Drivers: run the real rxsci code on a case and record what it did."""
import contextlib
import copy
import io

import rx
from rx.subject import Subject
import rxsci as rs


class Result(object):
    __slots__ = ('items', 'error', 'completed', 'raised', 'stdout', 'after_end')

    def __init__(self):
        self.items = []
        self.error = None        # argument of on_error (first)
        self.completed = 0       # number of on_completed calls seen by the raw observer
        self.raised = None       # exception escaping subscribe / a push
        self.stdout = ''
        self.after_end = 0       # events delivered after on_completed / on_error

    @property
    def ok(self):
        return self.error is None and self.raised is None and self.completed == 1 and self.after_end == 0

    def brief(self):
        return {'items': self.items, 'error': repr(self.error) if self.error is not None else None,
                'completed': self.completed, 'raised': repr(self.raised) if self.raised is not None else None,
                'after_end': self.after_end}


def snapshot(v):
    """Copy of a mutable output at emission time (scan with a mutating
    accumulator re-emits the same object)."""
    if isinstance(v, (list, dict, set)):
        try:
            return copy.deepcopy(v)
        except Exception:
            return v
    if isinstance(v, tuple):
        return tuple(snapshot(x) for x in v) if type(v) is tuple else v
    return v


def collect(obs, res=None, snap=True, on_item=None):
    """Subscribe synchronously; returns Result.  stdout of the code is captured."""
    res = res or Result()
    ended = [False]

    def on_next(i):
        if ended[0]:
            res.after_end += 1
        if on_item is not None:
            on_item(i)
        res.items.append(snapshot(i) if snap else i)

    def on_error(e):
        if ended[0]:
            res.after_end += 1
        ended[0] = True
        if res.error is None:
            res.error = e

    def on_completed():
        if ended[0]:
            res.after_end += 1
        ended[0] = True
        res.completed += 1

    buf = io.StringIO()
    with contextlib.redirect_stdout(buf):
        try:
            obs.subscribe(on_next=on_next, on_error=on_error, on_completed=on_completed)
        except Exception as e:  # observation, not a harness error
            res.raised = e
    res.stdout = buf.getvalue()
    return res


def source(items, src='from'):
    """'from': rx.from_ (emits from the trampoline, after subscribe() returned to it);  'create': an inline rx.create that emits
    everything INSIDE subscribe();  'replay': a ReplaySubject that already holds the items (also emits inside subscribe())."""
    items = list(items)
    if src == 'create':
        def _subscribe(observer, scheduler=None):
            for i in items:
                observer.on_next(i)
            observer.on_completed()
        return rx.create(_subscribe)
    if src == 'replay':
        from rx.subject import ReplaySubject
        s = ReplaySubject()
        for i in items:
            s.on_next(i)
        s.on_completed()
        return s
    return rx.from_(items)


def plain(items, ops, src='from'):
    return collect(source(items, src).pipe(*ops))


def store(items, ops, src='from'):
    return collect(source(items, src).pipe(rs.state.with_memory_store(list(ops))))


def multiplex(items, ops, src='from'):
    return collect(source(items, src).pipe(rs.ops.multiplex(list(ops))))


def rawmux(events, ops):
    """events: rs.On*Mux tuples (well formed).  Output: raw mux events after the
    pipeline, ProbeStateTopology dropped by with_store."""
    return collect(rx.from_(list(events)).pipe(
        rs.cast_as_mux_observable(),
        rs.state.with_memory_store(list(ops)),
    ), snap=False)


class Stepped(object):
    """Subject-driven source: push one item at a time; every output is stamped
    with the step during which it was emitted (0 = subscription, i = i-th item,
    n+1 = completion)."""

    def __init__(self, build):
        self.step = 0
        self.out = []         # (step, value)
        self.res = Result()
        self.subject = Subject()
        self.buf = io.StringIO()
        with contextlib.redirect_stdout(self.buf):
            try:
                build(self.subject).subscribe(
                    on_next=lambda v: self.out.append((self.step, snapshot(v))),
                    on_error=self._err, on_completed=self._done)
            except Exception as e:
                self.res.raised = e

    def _err(self, e):
        if self.res.error is None:
            self.res.error = e

    def _done(self):
        self.res.completed += 1

    def push(self, v):
        self.step += 1
        with contextlib.redirect_stdout(self.buf):
            try:
                self.subject.on_next(v)
            except Exception as e:
                self.res.raised = e

    def complete(self):
        self.step += 1
        with contextlib.redirect_stdout(self.buf):
            try:
                self.subject.on_completed()
            except Exception as e:
                self.res.raised = e
        self.res.items = [v for _, v in self.out]
        self.res.stdout = self.buf.getvalue()
        return self


def stepped(items, build):
    s = Stepped(build)
    for v in items:
        s.push(v)
    return s.complete()


def two_subscribers(items, op):
    """ONE piped observable (Subject source piped through op), subscribed twice before any item is pushed: both
    subscribers must see what a single subscriber sees.  Returns the two Results."""
    subject = Subject()
    obs = subject.pipe(op)
    results = [Result(), Result()]
    buf = io.StringIO()
    with contextlib.redirect_stdout(buf):
        for r in results:
            def on_next(v, r=r):
                r.items.append(snapshot(v))

            def on_error(e, r=r):
                if r.error is None:
                    r.error = e

            def on_completed(r=r):
                r.completed += 1
            try:
                obs.subscribe(on_next=on_next, on_error=on_error, on_completed=on_completed)
            except Exception as e:
                r.raised = e
        try:
            for v in items:
                subject.on_next(v)
            subject.on_completed()
        except Exception as e:
            results[0].raised = e
    return results


def interleaved(chunk_lists, make_op, sched):
    """Several subscriptions alive at the same time: stream k is pushed through its own Subject and make_op(k) (the
    caller decides whether operator objects are shared); `sched` (ints) picks which stream delivers its next chunk.
    Returns one Result per stream."""
    n = len(chunk_lists)
    subjects = [Subject() for _ in range(n)]
    results = [Result() for _ in range(n)]
    buf = io.StringIO()
    with contextlib.redirect_stdout(buf):
        for k in range(n):
            r = results[k]

            def on_next(v, r=r):
                r.items.append(snapshot(v))

            def on_error(e, r=r):
                if r.error is None:
                    r.error = e

            def on_completed(r=r):
                r.completed += 1
            try:
                subjects[k].pipe(make_op(k)).subscribe(on_next=on_next, on_error=on_error, on_completed=on_completed)
            except Exception as e:
                r.raised = e
        pos = [0] * n
        sched = list(sched)
        while any(pos[k] <= len(chunk_lists[k]) for k in range(n)):
            live = [k for k in range(n) if pos[k] <= len(chunk_lists[k])]
            k = live[(sched.pop(0) if sched else 0) % len(live)]
            try:
                if pos[k] < len(chunk_lists[k]):
                    subjects[k].on_next(chunk_lists[k][pos[k]])
                else:
                    subjects[k].on_completed()
            except Exception as e:
                if results[k].raised is None:
                    results[k].raised = e
            pos[k] += 1
    return results


# ---------------------------------------------------------------------------
# tap operators (identity MuxObservable operators that record what passes)

def tap(log, clock=None):
    """Records every mux event passing this point as (kind, key, item, t); with a shared
    `clock` ([int]) t is a global sequence number comparable across several taps."""
    def _rec(kind, key, item):
        if clock is None:
            log.append((kind, key, item, len(log)))
        else:
            log.append((kind, key, item, clock[0]))
            clock[0] += 1

    def _tap(source):
        def on_subscribe(observer, scheduler):
            def on_next(i):
                t = type(i)
                if t is rs.OnNextMux:
                    _rec('n', i.key, snapshot(i.item))
                elif t is rs.OnCreateMux:
                    _rec('c', i.key, None)
                elif t is rs.OnCompletedMux:
                    _rec('d', i.key, None)
                elif t is rs.OnErrorMux:
                    _rec('e', i.key, i.error)
                observer.on_next(i)

            def on_completed():
                _rec('D', None, None)
                observer.on_completed()

            def on_error(e):
                _rec('E', None, e)
                observer.on_error(e)

            return source.subscribe(on_next=on_next, on_completed=on_completed,
                                    on_error=on_error, scheduler=scheduler)
        return rs.MuxObservable(on_subscribe)
    return _tap


def lifetimes_of(log):
    """From a tap log: list of lifetimes in order of creation:
    {'key', 'items', 'closed', 'open_at', 'close_at' (log positions), 'open_t', 'close_t', 'item_t'}."""
    live = {}
    out = []
    for pos, (kind, key, item, t) in enumerate(log):
        if kind == 'c':
            lt = {'key': key, 'items': [], 'closed': False, 'open_at': pos, 'close_at': None, 'errors': [],
                  'open_t': t, 'close_t': None, 'item_t': []}
            live[key] = lt
            out.append(lt)
        elif kind == 'n':
            if key in live:
                live[key]['items'].append(item)
                live[key]['item_t'].append(t)
            else:
                out.append({'key': key, 'items': [item], 'closed': False, 'orphan': True,
                            'open_at': pos, 'close_at': None, 'errors': [], 'open_t': t, 'close_t': None, 'item_t': [t]})
        elif kind == 'e':
            if key in live:
                live[key]['errors'].append(item)
        elif kind == 'd':
            if key in live:
                lt = live.pop(key)
                lt['closed'] = True
                lt['close_at'] = pos
                lt['close_t'] = t
    return out



class ShortReads(object):
    """A raw-IO style file object: read(n) may return fewer than n bytes before the end of the file (pipes, sockets and
    unbuffered files do)."""

    def __init__(self, f, tiny=False):
        self.f = f
        self.k = 0
        self.tiny = tiny            # reads of 1..3 bytes: every byte position of a small file becomes a chunk boundary

    def read(self, n=-1):
        self.k += 1
        if n is None or n < 0:
            return self.f.read()
        if self.tiny:
            return self.f.read(max(1, min(n, [1, 2, 3, 1, 1, 2][self.k % 6])))
        return self.f.read(max(1, min(n, [7, 4096, n, 1000, 65535, 1][self.k % 6])))

    def write(self, b):
        return self.f.write(b)

    def close(self):
        return self.f.close()

    def __enter__(self):
        return self

    def __exit__(self, *a):
        self.f.close()
        return False
