"""Runner core: sub-checks, Hypothesis driving, sharding, replay files, evidence.

A *property module* (vf/props/cNN.py) exposes

    PID, RULE, ASSUMPTIONS, LEVEL ('exploration' | 'fault_enumeration')
    def subs(tier) -> [Sub, ...]
    EXCLUDES = {name: predicate(sub_name, case) -> bool}     (optional)

A *Sub* is one independently run sub-check: a Hypothesis strategy producing
JSON-serialisable cases and/or a bounded-exhaustive enumeration of cases, plus
`check(case) -> info` which raises `Violation` when the property is broken on
that case and `Reject` when the case is outside the property's domain (decided
by the model / the case itself, never by an exception of the code under test).

Nothing here consults a clock to judge a case except the 120 s non-termination
watchdog (DESIGN.md 2.5).
"""
import collections
import hashlib
import json
import multiprocessing
import os
import signal
import sys
import time
import traceback

VERIF = os.path.dirname(os.path.dirname(os.path.abspath(__file__)))
REPO = os.environ.get('VERIF_REPO', '/repo')
WATCHDOG_S = 120
NSHARDS = 16


class Violation(Exception):
    def __init__(self, msg, **details):
        super().__init__(msg)
        self.msg = msg
        self.details = details
        self.case = None


class Reject(Exception):
    """Case outside the domain of the property (counted, never a failure)."""


class HarnessError(Exception):
    pass


class Sub(object):
    def __init__(self, name, check, gen=None, examples=None, enum=None,
                 doc='', machine=None, steps=50, fuzz=None, fuzz_runs=None):
        self.name = name
        self.check = check
        self.gen = gen            # () -> hypothesis strategy
        self.examples = examples or {'quick': 200, 'thorough': 2000}
        self.enum = enum          # (tier) -> iterable of cases (deterministic)
        self.doc = doc
        self.machine = machine    # (record) -> RuleBasedStateMachine subclass; histories are replayed through check()
        self.steps = steps
        self.fuzz = fuzz          # name of an atheris target in vf/fuzz.py (coverage-guided campaign, thorough tier)
        self.fuzz_runs = fuzz_runs or {}


# ---------------------------------------------------------------------------
# canonical JSON, hashing, jsonable conversion

def jdump(x):
    return json.dumps(x, sort_keys=True, separators=(',', ':'), default=_jd)


def _jd(o):
    if isinstance(o, (bytes, bytearray)):
        return {'hex': bytes(o).hex()}
    if isinstance(o, (set, frozenset)):
        return sorted(o, key=repr)
    if isinstance(o, tuple):
        return list(o)
    return repr(o)


def jsonable(x, depth=0):
    """Best effort conversion of observed values for replay files."""
    if depth > 8:
        return repr(x)
    if x is None or isinstance(x, (bool, int, str)):
        return x
    if isinstance(x, float):
        return x if x == x and abs(x) != float('inf') else repr(x)
    if isinstance(x, (bytes, bytearray)):
        b = bytes(x)
        if len(b) > 64:
            return {'hex': b[:64].hex() + '...', 'len': len(b)}
        return {'hex': b.hex()}
    if isinstance(x, dict):
        return {str(k): jsonable(v, depth + 1) for k, v in x.items()}
    if isinstance(x, (list, tuple)):
        if len(x) > 60:
            return [jsonable(v, depth + 1) for v in x[:60]] + ['... %d more' % (len(x) - 60)]
        return [jsonable(v, depth + 1) for v in x]
    return repr(x)


def case_hash(case):
    return int.from_bytes(hashlib.sha1(jdump(case).encode()).digest()[:8], 'big')


# ---------------------------------------------------------------------------
# watchdog

class _Watchdog(object):
    def __enter__(self):
        def _h(signum, frame):
            raise Violation('did not return within %d s (non-termination guard)' % WATCHDOG_S)
        try:
            self.old = signal.signal(signal.SIGALRM, _h)
            signal.alarm(WATCHDOG_S)
            self.on = True
        except ValueError:
            self.on = False
        return self

    def __exit__(self, *a):
        if self.on:
            signal.alarm(0)
            signal.signal(signal.SIGALRM, self.old)
        return False


# ---------------------------------------------------------------------------
# statistics of one sub-check run (one shard)

class Stats(object):
    MAX_SAMPLES = 3

    def __init__(self):
        self.evaluations = 0
        self.rejected = 0
        self.excluded_known = 0
        self.nontrivial = set()
        self.classes = collections.Counter()
        self.samples = []       # (size, case)
        self._seen_first = False
        self.enumerated = 0

    def record(self, case, info):
        self.evaluations += 1
        if not info:
            return
        for l in info.get('labels', ()):
            self.classes[l] += 1
        if info.get('nontrivial'):
            h = case_hash(case)
            if h not in self.nontrivial:
                self.nontrivial.add(h)
                self._sample(case)

    def _sample(self, case):
        s = len(jdump(case))
        if s > 4000:
            return
        n = len(self.nontrivial)
        if len(self.samples) < self.MAX_SAMPLES:
            self.samples.append((s, case))
        elif n in (50, 500, 5000):
            self.samples[1] = (s, case)
        elif s > self.samples[-1][0]:
            self.samples[-1] = (s, case)

    def export(self):
        return {
            'evaluations': self.evaluations,
            'rejected': self.rejected,
            'excluded_known': self.excluded_known,
            'nontrivial': self.nontrivial,
            'classes': dict(self.classes),
            'samples': [c for _, c in self.samples],
            'enumerated': self.enumerated,
        }


def exec_case(sub, case, stats, excludes=()):
    """Run one case through sub.check with accounting.  Raises Violation."""
    for pred in excludes:
        if pred(sub.name, case):
            stats.excluded_known += 1
            return
    try:
        with _Watchdog():
            info = sub.check(case)
    except Reject:
        stats.evaluations += 1
        stats.rejected += 1
        return
    except Violation as v:
        stats.evaluations += 1
        if v.case is None:
            v.case = case
        raise
    except Exception as e:
        # an exception escaping the code under test (innermost frame inside the repository) on a case of the property's
        # domain is an observation, not a harness error; anything raised by the harness itself stays a harness error
        # (also when it was raised further down, in the standard library or a dependency called BY the repository, as long as no
        # frame of the harness lies below the last repository frame -- a user callback of the harness that raises is a harness error)
        tb = e.__traceback__
        repo_root = os.path.realpath(REPO).rstrip('/') + '/'
        here = os.path.dirname(os.path.dirname(os.path.realpath(__file__))).rstrip('/') + '/'
        depth, last_repo, last_harness = 0, -1, -1
        while tb is not None:
            raw = tb.tb_frame.f_code.co_filename
            fn = os.path.realpath(raw) if not raw.startswith('<') else raw        # '<frozen codecs>', '<string>': nobody's
            if fn.startswith(repo_root):
                last_repo = depth
            elif fn.startswith(here):
                last_harness = depth
            depth += 1
            tb = tb.tb_next
        if last_repo > last_harness:
            stats.evaluations += 1
            v = Violation('exception escaped from rxsci on an input of the domain: %r' % (e,),
                          traceback=''.join(traceback.format_exception(type(e), e, e.__traceback__))[-1500:])
            v.case = case
            raise v
        raise
    stats.record(case, info)


# ---------------------------------------------------------------------------
# one shard of one sub-check

def run_sub_shard(args):
    """Runs in a worker process (or inline).  Returns a picklable dict."""
    pid, sub_name, tier, seed, shard, nshards = args
    t0 = time.time()
    out = {'sub': sub_name, 'shard': shard, 'violation': None, 'harness_error': None}
    stats = Stats()
    try:
        mod = load_property(pid)
        sub = [s for s in mod.subs(tier) if s.name == sub_name][0]
        excludes = active_excludes(mod)
        try:
            if sub.enum is not None:
                for idx, case in enumerate(sub.enum(tier)):
                    if idx % nshards != shard:
                        continue
                    stats.enumerated += 1
                    exec_case(sub, case, stats, excludes)
            if sub.fuzz is not None:
                _run_fuzz(sub, tier, seed, shard, nshards, stats, out)
            elif sub.gen is not None or sub.machine is not None:
                n = sub.examples.get(tier, 100)
                n_here = n // nshards + (1 if shard < n % nshards else 0)
                if n_here > 0:
                    _run_hypothesis(sub, n_here, seed * 1000 + shard, stats, excludes)
        except Violation as v:
            out['violation'] = {
                'msg': v.msg, 'details': jsonable(v.details), 'case': v.case,
            }
    except HarnessError as e:
        out['harness_error'] = str(e)
    except BaseException as e:   # noqa — anything else is a harness problem
        out['harness_error'] = ''.join(traceback.format_exception(type(e), e, e.__traceback__))[-4000:]
    out.update(stats.export())
    out['wall_s'] = time.time() - t0
    return out


def _run_hypothesis(sub, n, hseed, stats, excludes):
    import hypothesis
    from hypothesis import HealthCheck, Phase, given, settings
    import hypothesis.errors as herr

    if sub.machine is not None:
        return _run_machine(sub, n, hseed, stats, excludes)

    @hypothesis.seed(hseed)
    @settings(max_examples=n, database=None, deadline=None,
              report_multiple_bugs=False, derandomize=False,
              suppress_health_check=list(HealthCheck),
              phases=[Phase.generate, Phase.shrink],
              print_blob=False, verbosity=hypothesis.Verbosity.quiet)
    @given(sub.gen())
    def _t(case):
        exec_case(sub, case, stats, excludes)

    try:
        _t()
    except Violation:
        raise
    except (herr.Unsatisfiable, herr.FailedHealthCheck) as e:
        raise HarnessError('generator problem in %s: %r' % (sub.name, e))
    except herr.Flaky as e:
        _flaky(sub, e)


def _flaky(sub, e):
    """Hypothesis could not reproduce a failure from its case alone.  The harness is deterministic by construction, so
    this means the outcome depends on earlier cases, i.e. the code under test keeps state between subscriptions: if a
    Violation is attached it is reported (flagged as such); otherwise it is a harness error."""
    found = []

    def walk(x):
        if isinstance(x, Violation):
            found.append(x)
        for y in getattr(x, 'exceptions', ()) or ():
            walk(y)
        if x.__cause__ is not None:
            walk(x.__cause__)
        if x.__context__ is not None and x.__context__ is not x.__cause__:
            walk(x.__context__)
    walk(e)
    if found:
        v = found[0]
        nv = Violation('[not reproducible from the case alone: the outcome depends on earlier cases, state leaks between '
                       'subscriptions] ' + v.msg, **v.details)
        nv.case = v.case
        raise nv
    raise HarnessError('non-deterministic case in %s: %r' % (sub.name, e))


def _run_fuzz(sub, tier, seed, shard, nshards, stats, out):
    """One libFuzzer campaign (atheris) in a child process: -runs/-seed pin it approximately; a
    violation comes back as a JSON case judged by the same check function as the Hypothesis sub-checks."""
    import shutil
    import subprocess
    import tempfile
    runs = sub.fuzz_runs.get(tier, 0) // nshards
    if runs <= 0:
        return
    try:
        sys.path.append(os.path.join(VERIF, '.deps'))
        import atheris  # noqa: F401
    except ImportError:
        out['fuzz_skipped'] = 'atheris is not installed (run.py setup installs it from the offline wheelhouse)'
        return
    d = tempfile.mkdtemp(prefix='rxsci_fuzz_')
    try:
        corpus = os.path.join(d, 'corpus')
        os.makedirs(corpus)
        cmd = [sys.executable, os.path.join(VERIF, 'vf', 'fuzz.py'), sub.fuzz, d, '-runs=%d' % runs,
               '-seed=%d' % (seed * 1000 + shard + 1), '-max_len=256', '-print_final_stats=1', corpus]
        r = subprocess.run(cmd, stdout=subprocess.PIPE, stderr=subprocess.STDOUT, cwd=d,
                           env=dict(os.environ, PYTHONHASHSEED='0'))
        txt = r.stdout.decode(errors='replace')
        st = {}
        if os.path.exists(os.path.join(d, 'stats.json')):
            st = json.load(open(os.path.join(d, 'stats.json')))
        done = [l for l in txt.splitlines() if l.startswith('Done ')]
        n = int(done[0].split()[1]) if done else st.get('runs', 0)
        stats.evaluations += n
        stats.rejected += st.get('rejected', 0)
        for h in st.get('hashes', []):
            stats.nontrivial.add(h)
        for c in st.get('samples', []):
            stats._sample(c)
        feats = [l for l in txt.splitlines() if 'ft:' in l]
        if feats:
            try:
                stats.classes['fuzz:features'] = max(stats.classes['fuzz:features'], int(feats[-1].split('ft:')[1].split()[0]))
            except (ValueError, IndexError):
                pass
        vp = os.path.join(d, 'violation.json')
        if os.path.exists(vp):
            v = json.load(open(vp))
            vio = Violation(v['message'], **(v.get('details') if isinstance(v.get('details'), dict) else {}))
            vio.case = v['case']
            raise vio
        if r.returncode != 0:
            raise HarnessError('atheris campaign %s failed (exit %d):\n%s' % (sub.fuzz, r.returncode, txt[-1500:]))
    finally:
        shutil.rmtree(d, ignore_errors=True)


def _run_machine(sub, n, hseed, stats, excludes):
    """Stateful (rule-based) generation.  The machine's rules only choose operations; every
    operation is applied through sub.check-compatible interpreter code, and the machine reports
    the finished history through `record(case, info)` so that histories are counted, sampled
    and replayable like any other case."""
    import hypothesis
    from hypothesis import HealthCheck, Phase, settings, Verbosity
    from hypothesis.stateful import run_state_machine_as_test
    import hypothesis.errors as herr

    def record(case, info):
        stats.record(case, info)

    cls = sub.machine(record)
    try:
        run_state_machine_as_test(
            hypothesis.seed(hseed)(cls),
            settings=settings(max_examples=n, stateful_step_count=sub.steps, database=None, deadline=None,
                              report_multiple_bugs=False, derandomize=False, suppress_health_check=list(HealthCheck),
                              phases=[Phase.generate, Phase.shrink], print_blob=False, verbosity=Verbosity.quiet))
    except Violation:
        raise
    except (herr.Unsatisfiable, herr.FailedHealthCheck) as e:
        raise HarnessError('generator problem in %s: %r' % (sub.name, e))
    except herr.Flaky as e:
        _flaky(sub, e)


# ---------------------------------------------------------------------------
# property modules, known findings

def load_property(pid):
    import importlib
    return importlib.import_module('vf.props.' + pid.lower())


def known_findings(pid):
    path = os.path.join(VERIF, 'known_findings.json')
    if not os.path.exists(path):
        return []
    with open(path) as f:
        data = json.load(f)
    return [e for e in data.get('findings', []) if e.get('property_id') == pid]


_ACTIVE_EXCLUDES = {}


def active_excludes(mod):
    """Exclusion predicates of the *open* known findings whose witness still fails."""
    return _ACTIVE_EXCLUDES.get(mod.PID, [])


def _replay_case(mod, tier, sub_name, case):
    """-> None if the case passes, else a Violation."""
    subs = {s.name: s for s in mod.subs(tier)}
    if sub_name not in subs:
        raise HarnessError('unknown sub-check %s in %s' % (sub_name, mod.PID))
    try:
        with _Watchdog():
            subs[sub_name].check(case)
    except Reject:
        return None
    except Violation as v:
        v.case = case
        return v
    return None


def write_replay(pid, sub_name, vio, seed, tier):
    d = os.path.join(VERIF, 'replays')
    os.makedirs(d, exist_ok=True)
    body = {
        'property': pid, 'sub': sub_name, 'case': vio['case'],
        'message': vio['msg'], 'details': vio['details'],
        'seed': seed, 'tier': tier,
    }
    h = hashlib.sha1(jdump([sub_name, vio['case']]).encode()).hexdigest()[:12]
    path = os.path.join(d, '%s-%s.json' % (pid, h))
    with open(path, 'w') as f:
        f.write(json.dumps(body, indent=1, sort_keys=True, default=_jd))
    return path


# ---------------------------------------------------------------------------
# top level: check one property

def check_property(pid, tier, seed, only_sub=None, jobs=None):
    t0 = time.time()
    mod = load_property(pid)
    subs = mod.subs(tier)
    if only_sub:
        subs = [s for s in subs if s.name in only_sub]
    violations = []     # (sub, path, msg)
    known_lines = []
    harness = []

    # 1. regress directory + known findings witnesses
    regress_replayed = 0
    rdir = os.path.join(VERIF, 'regress', pid)
    if os.path.isdir(rdir) and not only_sub:
        for fn in sorted(os.listdir(rdir)):
            if not fn.endswith('.json'):
                continue
            with open(os.path.join(rdir, fn)) as f:
                r = json.load(f)
            regress_replayed += 1
            v = _replay_case(mod, tier, r['sub'], r['case'])
            if v is not None:
                path = write_replay(pid, r['sub'], {'msg': v.msg, 'details': jsonable(v.details), 'case': r['case']}, seed, tier)
                violations.append((r['sub'], path, 'regress %s: %s' % (fn, v.msg)))
    excl = []
    kf_report = []
    for e in known_findings(pid):
        w = e.get('witness')
        if e.get('status') == 'open':
            still = True
            if w:
                still = _replay_case(mod, tier, w['sub'], w['case']) is not None
            if still:
                known_lines.append('KNOWN-FINDING: property=%s %s' % (pid, e.get('what', e.get('key'))))
                pred = getattr(mod, 'EXCLUDES', {}).get(e.get('exclude'))
                if pred is not None:
                    excl.append(pred)
            kf_report.append({'key': e.get('key'), 'status': 'open', 'still_fails': still})
        else:
            if w:
                v = _replay_case(mod, tier, w['sub'], w['case'])
                if v is not None:
                    path = write_replay(pid, w['sub'], {'msg': v.msg, 'details': jsonable(v.details), 'case': w['case']}, seed, tier)
                    violations.append((w['sub'], path, 'fixed finding %s is back: %s' % (e.get('key'), v.msg)))
            kf_report.append({'key': e.get('key'), 'status': 'fixed'})
    _ACTIVE_EXCLUDES[pid] = excl

    # 2. the search
    nshards = 1 if tier == 'quick' else NSHARDS
    if jobs:
        nshards = jobs
    tasks = [(pid, s.name, tier, seed, sh, nshards) for s in subs for sh in range(nshards)]
    if nshards == 1:
        results = [run_sub_shard(t) for t in tasks]
    else:
        # fork: workers inherit _ACTIVE_EXCLUDES
        with multiprocessing.get_context('fork').Pool(min(NSHARDS, len(tasks))) as pool:
            results = pool.map(run_sub_shard, tasks, chunksize=1)

    skipped = {}
    per_sub = collections.OrderedDict()
    for s in subs:
        per_sub[s.name] = {'evaluations': 0, 'rejected': 0, 'excluded_known': 0,
                           'nontrivial': set(), 'classes': collections.Counter(),
                           'samples': [], 'enumerated': 0, 'doc': s.doc}
    for r in results:
        a = per_sub[r['sub']]
        for k in ('evaluations', 'rejected', 'excluded_known', 'enumerated'):
            a[k] += r[k]
        a['nontrivial'] |= r['nontrivial']
        a['classes'].update(r['classes'])
        if len(a['samples']) < 3:
            a['samples'].extend(r['samples'][:3 - len(a['samples'])])
        if r['harness_error']:
            harness.append((r['sub'], r['harness_error']))
        if r.get('fuzz_skipped'):
            skipped[r['sub']] = r['fuzz_skipped']
        if r['violation'] and not any(v[0] == r['sub'] for v in violations if v[2].startswith('search')):
            path = write_replay(pid, r['sub'], r['violation'], seed, tier)
            violations.append((r['sub'], path, 'search: ' + r['violation']['msg']))

    # 3. evidence
    total_eval = sum(a['evaluations'] for a in per_sub.values())
    all_nt = set()
    classes = collections.Counter()
    samples = []
    for name, a in per_sub.items():
        all_nt |= {(name, h) for h in a['nontrivial']}
        for k, v in a['classes'].items():
            classes[name + ':' + k] += v
        for c in a['samples'][:2]:
            samples.append({'sub': name, 'case': c})
    shortfalls = []
    for name, a in per_sub.items():
        if a['evaluations'] and not a['nontrivial']:
            shortfalls.append('%s: no non-trivial case' % name)
        if a['evaluations'] and a['rejected'] > 0.5 * a['evaluations']:
            shortfalls.append('%s: %d of %d cases rejected' % (name, a['rejected'], a['evaluations']))
    for f in getattr(mod, 'coverage_targets', lambda c, t: [])(classes, total_eval):
        shortfalls.append(f)
    ev = {
        'property_id': pid, 'tier': tier, 'seed': seed,
        'level': getattr(mod, 'LEVEL', 'exploration'),
        'coverage': {
            'evaluations': total_eval + regress_replayed,
            'distinct_nontrivial': len(all_nt),
            'rule': mod.RULE,
            'samples': samples,
            'rejected': sum(a['rejected'] for a in per_sub.values()),
            'excluded_known': sum(a['excluded_known'] for a in per_sub.values()),
            'regress_replayed': regress_replayed,
            'known_findings': kf_report,
            'shards': nshards,
            'classes': dict(sorted(classes.items())),
            'shortfalls': shortfalls,
            'subchecks': {
                name: {'evaluations': a['evaluations'], 'distinct_nontrivial': len(a['nontrivial']),
                       'rejected': a['rejected'], 'enumerated_exhaustively': a['enumerated'], 'what': a['doc']}
                for name, a in per_sub.items()},
        },
        'assumptions': list(mod.ASSUMPTIONS),
        'wall_s': round(time.time() - t0, 2),
        'violations': len(violations),
    }
    if harness:
        ev['coverage']['harness_errors'] = [h[1][-500:] for h in harness]
    if skipped:
        ev['coverage']['fuzz_skipped'] = skipped
        for k, v in skipped.items():
            shortfalls.append('%s: %s' % (k, v))
    if not only_sub and os.path.realpath(REPO) == '/repo':
        os.makedirs(os.path.join(VERIF, 'evidence'), exist_ok=True)
        with open(os.path.join(VERIF, 'evidence', pid + '.json'), 'w') as f:
            f.write(json.dumps(ev, indent=1, sort_keys=True, default=_jd))
            f.write('\n')

    # 4. report
    for name, a in per_sub.items():
        print('%s/%s: %d cases (%d enumerated), %d distinct non-trivial, %d rejected, %d excluded' % (
            pid, name, a['evaluations'], a['enumerated'], len(a['nontrivial']), a['rejected'], a['excluded_known']))
    for l in shortfalls:
        print('coverage shortfall: ' + l)
    for l in known_lines:
        print(l)
    for sub_name, path, msg in violations:
        print('  %s/%s: %s' % (pid, sub_name, msg[:600]))
        print('VIOLATION property=%s replay=%s' % (pid, path))
    print('%s %s seed=%d: %d evaluations, %d violations, %.1fs' % (pid, tier, seed, ev['coverage']['evaluations'], len(violations), ev['wall_s']))
    for s, h in harness:
        sys.stderr.write('HARNESS ERROR in %s/%s:\n%s\n' % (pid, s, h))
    if violations:
        return 1
    if harness:
        return 2
    if total_eval == 0:
        sys.stderr.write('HARNESS ERROR: no case executed\n')
        return 2
    return 0


def replay_file(path):
    with open(path) as f:
        r = json.load(f)
    mod = load_property(r['property'])
    v = _replay_case(mod, r.get('tier', 'quick'), r['sub'], r['case'])
    if v is None:
        print('replay %s: case passes' % path)
        return 0
    print('  %s/%s: %s' % (r['property'], r['sub'], v.msg))
    print('  details: %s' % json.dumps(jsonable(v.details), default=_jd)[:2000])
    print('VIOLATION property=%s replay=%s' % (r['property'], path))
    return 1
