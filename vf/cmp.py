"""Value comparison: exact, except floats that two different (both acceptable)
algorithms may round differently, compared with a stated relative tolerance."""
import math
from array import array

REL = 1e-9
ABS = 1e-12


def same(a, b, approx=True):
    if type(a).__module__ == 'numpy' and hasattr(a, 'tolist') and getattr(a, 'ndim', 0) > 0:
        a = a.tolist()
    if type(b).__module__ == 'numpy' and hasattr(b, 'tolist') and getattr(b, 'ndim', 0) > 0:
        b = b.tolist()
    if isinstance(a, bool) or isinstance(b, bool):
        return type(a) is type(b) and a == b
    if isinstance(a, float) or isinstance(b, float):
        if not isinstance(a, (int, float)) or not isinstance(b, (int, float)):
            return False
        if a == b:
            return True
        if math.isnan(a) or math.isnan(b):
            return math.isnan(a) and math.isnan(b)
        if not approx:
            return False
        return abs(a - b) <= ABS + REL * max(abs(a), abs(b))
    if isinstance(a, array):
        a = list(a)
    if isinstance(b, array):
        b = list(b)
    if isinstance(a, (list, tuple)):
        if type(a) is not type(b) and not (isinstance(a, tuple) and isinstance(b, tuple)):
            return False
        return len(a) == len(b) and all(same(x, y, approx) for x, y in zip(a, b))
    if type(a) is not type(b):
        return False
    return a == b


def denumpy(v):
    """numpy scalars -> the Python number of the same value (recursively): the typed state store hands back Python numbers
    where a plain observable keeps the numpy type; the properties speak about values"""
    try:
        import numpy as np
    except ImportError:
        return v
    if isinstance(v, np.generic):
        return v.item()
    if isinstance(v, array):
        return list(v)
    if type(v) in (list, tuple):
        return type(v)(denumpy(x) for x in v)
    if isinstance(v, tuple) and hasattr(v, '_fields'):
        return type(v)(*[denumpy(x) for x in v])
    return v


def same_seq(xs, ys, approx=True):
    return len(xs) == len(ys) and all(same(x, y, approx) for x, y in zip(xs, ys))


def same_bag(xs, ys, approx=True):
    """multiset equality under `same` (quadratic; sequences are short)."""
    if len(xs) != len(ys):
        return False
    ys = list(ys)
    for x in xs:
        for i, y in enumerate(ys):
            if same(x, y, approx):
                del ys[i]
                break
        else:
            return False
    return True
