"""Shared helpers for the pipeline-level properties."""
from hypothesis import strategies as st

import rxsci as rs

from vf import ast as A, model as M, gen, drive, cmp
from vf.core import Reject, Violation


def model_events(p, items, mode='mux', roll_flush='open'):
    """-> ([(step, value)], ctx).  Raises Reject when the model says the case is out of domain."""
    ctx = M.MCtx(mode)
    ctx.roll_flush = roll_flush
    try:
        ev = M.run(A.model_chain(p, ctx), items)
    except M.OutOfDomain:
        raise Reject()
    return ev, ctx


def by_step(events, n):
    steps = [[] for _ in range(n + 2)]
    for s, v in events:
        steps[s].append(v)
    return steps


def require_clean(res, what, **kw):
    if res.raised is not None:
        raise Violation('%s: exception escaped: %r' % (what, res.raised), result=res.brief(), **kw)
    if res.error is not None:
        raise Violation('%s: on_error(%r) on an error-free input' % (what, res.error), result=res.brief(), **kw)
    if res.completed != 1:
        raise Violation('%s: on_completed called %d times' % (what, res.completed), result=res.brief(), **kw)
    if res.after_end:
        raise Violation('%s: %d events after the end of the stream' % (what, res.after_end), result=res.brief(), **kw)


@st.composite
def pipeline_case(draw, opts, max_items=12, mono_share=3, min_len=0):
    """{'tin','p','items'}: about 1/mono_share of the cases start from non-decreasing
    timestamps so that time_split is reachable at the head."""
    mono = opts.mux and opts.time_split and draw(st.integers(0, mono_share - 1)) == 0
    tin = 'mono' if mono else 'int'
    p = draw(gen.chain(tin, opts, opts.max_depth, min_len=min_len))
    items = draw(gen.mono_items(max_items) if mono else gen.int_items(max_items))
    return {'tin': tin, 'p': p, 'items': items}


def labels_of(p):
    ks = A.kinds_in(p)
    out = ['op:' + k for k in ks]
    out.append('depth=%d' % A.depth(p))
    out.append('len>=3' if A.size(p) >= 3 else 'len<3')
    return out
