"""Key / predicate values that are equal but not identical objects (built at run time)."""
from hypothesis import strategies as st


NAN = float('nan')


class Token(object):
    """a plain instance: equal only to itself (identity equality), hashable"""

    def __init__(self, n):
        self.n = n

    def __repr__(self):
        return 'Token(%d)' % self.n

    def __deepcopy__(self, memo):       # the harness snapshots outputs with deepcopy; a token stays itself there
        return self


TOKENS = [Token(n) for n in range(3)]


def mk(spec):
    k = spec[0]
    if k == 'int':
        return spec[1]
    if k == 'big':
        return 10 ** 20 + spec[1]          # a fresh int object every time
    if k == 'tuple':
        return tuple([spec[1], spec[2]])
    if k == 'str':
        return ''.join(list(spec[1]))      # built at run time: not interned
    if k == 'num':                         # 1 == 1.0 == True
        return {'int': int, 'float': float, 'bool': bool}[spec[2]](spec[1])
    if k == 'none':
        return None
    if k == 'nested':
        return (spec[1], (str(spec[1]) + 'x', float(spec[1])))
    if k == 'token':
        return TOKENS[spec[1]]
    if k == 'bigfloat':                    # floats that differ by one unit at a large magnitude (epoch seconds), or by 1e-13 near 0
        return 1.7e9 + spec[1] if spec[2] == 'big' else 1e-13 * spec[1]
    if k == 'bytes':                       # b'\x00\x01' is not (0, 1)
        return bytes([spec[1], 1 - spec[1]])
    if k == 'long':                        # 40-column records that differ in one column only, by values with equal hashes
        return tuple([0] * 20 + [-1 if spec[1] == 0 else -2] + ['x'] * 19)
    if k == 'np':                          # numpy scalars: == / != on them return numpy.bool_, not the bool singletons
        import numpy
        return numpy.int64(spec[1]) if spec[2] == 'i' else numpy.float64(spec[1])
    if k == 'nan':
        return NAN if spec[1] == 0 else float('nan')     # the shared object, or a fresh one: both differ from themselves by !=
    raise ValueError(spec)


SPEC = st.one_of(
    st.tuples(st.just('int'), st.integers(0, 3)),
    st.tuples(st.just('int'), st.sampled_from([-1, -2, 2 ** 61 - 1])),       # unequal values with equal hashes
    st.tuples(st.just('tuple'), st.sampled_from([-1, -2]), st.just(0)),
    st.tuples(st.just('big'), st.integers(0, 2)),
    st.tuples(st.just('tuple'), st.integers(0, 1), st.integers(0, 1)),
    st.tuples(st.just('str'), st.sampled_from(['', 'ab', 'abc', 'ba'])),
    st.tuples(st.just('num'), st.integers(0, 1), st.sampled_from(['int', 'float', 'bool'])),
    st.tuples(st.just('none')),
    st.tuples(st.just('token'), st.integers(0, 2)),
    st.tuples(st.just('nested'), st.integers(0, 1)),
    st.tuples(st.just('np'), st.integers(0, 2), st.sampled_from(['i', 'f'])),
    st.tuples(st.just('long'), st.integers(0, 1)),
    st.tuples(st.just('bytes'), st.integers(0, 1)),
    st.tuples(st.just('bigfloat'), st.integers(0, 2), st.sampled_from(['big', 'tiny'])),
).map(list)

def compatible(pool):
    """numpy scalars compare element-wise with tuples (np.int64(1) == (0, 1) is an array without a truth value): a pool that
    holds numpy scalars holds no tuples"""
    if any(s[0] == 'np' for s in pool):
        pool = [s for s in pool if s[0] not in ('tuple', 'nested', 'long')]
    return pool


FRESH = ('big', 'tuple', 'str', 'nested', 'long')


def fresh_kind(spec):
    """keys of these kinds are distinct objects each time they are built."""
    return spec[0] in FRESH or (spec[0] == 'num' and spec[2] == 'float') or spec[0] in ('bigfloat', 'np')
