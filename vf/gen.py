"""Hypothesis strategies: type-correct pipelines by construction, inputs, interleavings."""
from hypothesis import strategies as st

from vf import ast as A

ints = st.integers


class Opts(object):
    def __init__(self, mux=True, tee=True, windows=True, max_depth=2, max_len=4, exact=False,
                 tee_precondition=False, stateless=False, exclude=(), only=None, time_split=True,
                 progress=True, branch_max=3, weights=None):
        self.mux = mux                      # mux-only kinds allowed
        self.tee = tee
        self.windows = windows and mux
        self.max_depth = max_depth
        self.max_len = max_len
        self.exact = exact                  # floats may reach discontinuous operators
        self.tee_precondition = tee_precondition   # C01: no completion-triggered node after take/first inside a tee
        self.stateless = stateless
        self.exclude = set(exclude)
        self.only = set(only) if only else None
        self.time_split = time_split
        self.progress = progress
        self.branch_max = branch_max
        self.weights = dict(CAT_WEIGHT_DEFAULT)
        self.weights.update(weights or {})


CATS = {
    'item': ['map_add', 'map_mul', 'map_mod', 'map_pair', 'map_rep', 'map_none', 'map_float', 'starmap_add',
             'filter_mod', 'filter_gt', 'filter_notnone', 'filter_false', 'flat_map', 'clip', 'fill_none',
             'identity', 'do_action', 'assert_true'],
    'fold': ['scan_sum', 'scan_fsum', 'scan_or', 'scan_minmax', 'scan_list', 'scan_term', 'scan_abs', 'count',
             'sum', 'mean', 'min', 'max', 'variance', 'stddev', 'fvariance', 'fstddev'],
    'seq': ['first', 'last', 'take', 'to_list', 'to_array', 'batch', 'duc', 'assert1_true', 'progress'],
    'muxseq': ['distinct', 'lag', 'pad_start', 'pad_end', 'start_with'],
    'window': ['group_by', 'roll', 'split', 'time_split'],
    'tee': ['tee'],
}
CAT_WEIGHT_DEFAULT = {'item': 5, 'fold': 4, 'seq': 4, 'muxseq': 3, 'window': 4, 'tee': 3}

# static input-type table (finer conditions are enforced by the params functions + accept())
TIN = {
    'map_add': A.INTLIKE, 'map_mul': A.INTLIKE, 'map_mod': A.INTLIKE, 'map_pair': A.INTLIKE, 'map_rep': A.INTLIKE,
    'map_none': A.INTLIKE, 'map_float': A.INTLIKE, 'starmap_add': ('pair',), 'filter_mod': A.INTLIKE,
    'filter_gt': A.INTLIKE, 'filter_notnone': ('optint',), 'filter_false': '*', 'flat_map': ('list', 'pair'),
    'clip': A.INTLIKE + ('float',), 'fill_none': ('optint',), 'identity': '*', 'do_action': '*', 'assert_true': '*',
    'assert1_true': '*', 'progress': '*',
    'scan_sum': A.INTLIKE, 'scan_fsum': A.NUM, 'scan_or': A.INTLIKE, 'scan_minmax': A.INTLIKE, 'scan_list': '*',
    'scan_term': A.INTLIKE, 'scan_abs': A.INTLIKE, 'count': '*', 'sum': A.NUM, 'mean': A.NUM, 'min': A.NUM, 'max': A.NUM,
    'variance': A.NUM, 'stddev': A.NUM, 'fvariance': A.NUM, 'fstddev': A.NUM,
    'first': '*', 'last': '*', 'take': '*', 'to_list': '*', 'to_array': A.INTLIKE, 'batch': '*', 'duc': '*',
    'distinct': A.HASHABLE, 'lag': '*', 'pad_start': '*', 'pad_end': '*', 'start_with': A.INTLIKE,
    'group_by': A.INTLIKE, 'roll': '*', 'split': A.INTLIKE, 'time_split': ('mono',), 'tee': '*',
}
RARE = {'filter_false', 'identity', 'assert_true', 'do_action'}
# operators whose result on floats is discontinuous in their input (model comparisons use a tolerance)
DISCONT_ON_FLOAT = {'duc', 'min', 'max', 'clip'}


import os
# experiments only (e.g. looking behind a shallow defect of an old commit): never set by registered commands
ENV_EXCLUDE = set(filter(None, os.environ.get('VERIF_EXCLUDE_KINDS', '').split(',')))


INEXACT = {'variance', 'stddev', 'fvariance', 'fstddev'}     # the model uses another (exact) algorithm for these


def candidates(t, opts, depth_left, no_ct, tainted=False):
    out = []
    for cat, names in CATS.items():
        if cat in ('muxseq', 'window') and not opts.mux:
            continue
        if cat == 'window' and (not opts.windows or depth_left <= 0):
            continue
        if cat == 'tee' and (not opts.tee or depth_left <= 0):
            continue
        for n in names:
            if n in opts.exclude or n in ENV_EXCLUDE or (opts.only is not None and n not in opts.only):
                continue
            if n == 'time_split' and not opts.time_split:
                continue
            if n == 'progress' and not opts.progress:
                continue
            ti = TIN[n]
            if ti != '*' and t not in ti:
                continue
            if t == 'float' and not opts.exact and n in DISCONT_ON_FLOAT:
                continue
            if tainted and not opts.exact and n == 'duc' and not A.isint(t):
                continue        # containers (tuples, lists) may carry inexactly-modelled floats: no equality tests on them
            k = A.KINDS[n]
            if opts.stateless and k.stateful:
                continue
            if no_ct and not k.container and k.ct:
                continue
            out.append((cat, n))
    return out


def draw_params(draw, name, t, opts, depth_left, no_ct, tainted=False):
    """-> node (list) ; reduce flags obey no_ct."""
    red = (lambda: False) if no_ct else (lambda: draw(st.booleans()))
    if name in ('map_add',):
        return [name, draw(ints(-3, 3))]
    if name == 'map_mul':
        return [name, draw(st.sampled_from([-1, 2, 3]))]
    if name in ('map_mod', 'map_pair', 'map_none'):
        return [name, draw(ints(2, 4))]
    if name == 'map_rep':
        return [name, draw(ints(1, 3))]
    if name == 'filter_mod':
        m = draw(ints(2, 4))
        return [name, m, draw(ints(0, m - 1)), draw(st.sampled_from(['bool', 'bool', 'int']))]
    if name == 'filter_gt':
        return [name, draw(ints(-4, 6))]
    if name == 'clip':
        lo = draw(st.one_of(st.none(), ints(-4, 2)))
        hi = draw(st.one_of(st.none(), ints(0, 6)))
        if lo is not None and hi is not None and lo > hi:
            lo, hi = hi, lo
        return [name, lo, hi]
    if name == 'fill_none':
        return [name, draw(ints(-1, 3))]
    if name == 'progress':
        return [name, draw(ints(1, 3))]
    if name in ('scan_sum', 'scan_fsum', 'scan_minmax', 'count', 'sum', 'mean', 'min', 'max',
                'variance', 'stddev', 'fvariance', 'fstddev'):
        return [name, red()]
    if name == 'scan_term':
        return [name, draw(st.booleans())]
    if name == 'scan_or':
        return [name, draw(ints(-2, 4))]
    if name == 'scan_list':
        return [name, draw(st.sampled_from(['value', 'factory', 'nested'])), red() if t in A.SCALAR else True]
    if name == 'take':
        return [name, draw(ints(0, 4))]
    if name == 'batch':
        return [name, draw(ints(1, 4))]
    if name == 'duc':
        return [name, draw(ints(2, 3)) if (A.isint(t) and draw(st.booleans())) else 0]
    if name == 'distinct':
        return [name, draw(ints(2, 3)) if (A.isint(t) and draw(st.booleans())) else 0]
    if name == 'lag':
        return [name, draw(ints(1, 3)), draw(st.sampled_from([None, None, 'float', 'int']))]       # the documented data_type option
    if name in ('pad_start', 'pad_end'):
        v = draw(st.one_of(st.none(), ints(-1, 9))) if A.isint(t) else None
        return [name, draw(ints(0, 3)), v]
    if name == 'start_with':
        return [name, draw(st.lists(ints(-1, 9), max_size=3))]
    if name == 'group_by':
        inner = draw(chain(t, opts, depth_left - 1, no_ct=False, tainted=tainted))
        return [name, draw(st.sampled_from([2, 3, 2, 3, 4])), inner]
    if name == 'roll':
        w = draw(ints(1, 5))
        s = draw(ints(1, 5))
        return [name, w, s, draw(chain(t, opts, depth_left - 1, no_ct=False, tainted=tainted))]
    if name == 'split':
        return [name, draw(st.sampled_from(['div', 'mod', 'nonemod', 'gkey', 'nanmod', 'tokdiv', 'bigf'])), draw(ints(2, 3)), draw(chain(t, opts, depth_left - 1, no_ct=False, tainted=tainted))]
    if name == 'time_split':
        active = draw(st.sampled_from([None, 1, 3, 5, 8, 0]))
        inactive = draw(st.sampled_from([None, 1, 2, 3, 0]))
        closing = draw(st.one_of(st.none(), st.tuples(ints(2, 4), ints(0, 1)).map(list)))
        return [name, active, inactive, closing, draw(st.booleans()), draw(chain(t, opts, depth_left - 1, no_ct=False, tainted=tainted))]
    if name == 'tee':
        join = draw(st.sampled_from(['zip', 'merge', 'combine_latest']))
        nb = draw(st.sampled_from([1] + list(range(2, opts.branch_max + 1)) * 3))      # a tee_map of ONE branch is legal too
        branches = [draw(chain(t, opts, depth_left - 1, no_ct=no_ct, in_tee=True, max_len=3, tainted=tainted)) for _ in range(nb)]
        return [name, join, branches]
    return [name]


def has_early(pipeline):
    return any(A.KINDS[n[0]].early for n in A.walk(pipeline))


@st.composite
def chain(draw, t, opts, depth_left, no_ct=False, in_tee=False, max_len=None, min_len=0, tainted=False):
    """A type-correct pipeline for items of type t."""
    n = draw(ints(min_len, max_len if max_len is not None else opts.max_len))
    out = []
    for _ in range(n):
        cands = candidates(t, opts, depth_left, no_ct, tainted)
        if not cands:
            break
        cats = sorted({c for c, _ in cands})
        weights = []
        for c in cats:
            weights += [c] * opts.weights[c]
        cat = draw(st.sampled_from(weights))
        names = [k for c, k in cands if c == cat]
        name = draw(st.sampled_from(names))
        if t == 'mono' and any(k == 'time_split' for _, k in cands) and draw(ints(0, 2)) == 0:
            name = 'time_split'       # only reachable on non-decreasing timestamps: keep it frequent there
        if name in RARE and len(names) > 1 and draw(ints(0, 3)) != 0:
            name = draw(st.sampled_from([k for k in names if k not in RARE] or names))
        node = draw_params(draw, name, t, opts, depth_left, no_ct, tainted)
        t2 = A.KINDS[name].accept(t, node)
        if t2 is None:
            continue
        if no_ct and A.KINDS[name].is_ct(node):
            continue
        out.append(node)
        t = t2
        if any(n[0] in INEXACT for n in A.walk([node])):
            tainted = True
        if opts.tee_precondition and in_tee and (A.KINDS[name].early or (name == 'tee' and any(has_early(b) for b in node[2]))):
            no_ct = True
    return out


def pipeline(tin='int', opts=None, min_len=0):
    opts = opts or Opts()
    return chain(tin, opts, opts.max_depth, min_len=min_len)


# ---------------------------------------------------------------------------
# inputs

def int_items(max_size=12, lo=-8, hi=8):
    return st.sampled_from([0, 0, 1, 3, 6]).flatmap(
        lambda m: st.lists(ints(lo, hi), min_size=min(m, max_size), max_size=max_size))


@st.composite
def mono_items(draw, max_size=12):
    m = draw(st.sampled_from([0, 0, 1, 3, 6]))
    deltas = draw(st.lists(ints(0, 7), min_size=min(m, max_size), max_size=max_size))
    t = draw(ints(0, 5))
    out = []
    for d in deltas:
        t += d
        out.append(t)
    return out


def value_of(tin):
    if tin == 'optint':
        return st.one_of(st.none(), ints(-8, 8))
    if tin == 'float':
        return st.one_of(ints(-16, 16).map(lambda x: x * 0.5), st.floats(-1e6, 1e6, allow_nan=False, width=32))
    return ints(-8, 8)


@st.composite
def keyed_items(draw, max_keys=5, max_size=16, mono=False):
    """list of [key, value]; every key used has >= 1 item; the interleaving is the draw."""
    nk = draw(ints(1, max_keys))
    keys = draw(st.lists(ints(0, nk - 1), min_size=1, max_size=max_size))
    if mono is True or mono == 'mono':
        vals = draw(mono_items(max_size=len(keys)))
        vals = (vals + [vals[-1] if vals else 0] * len(keys))[:len(keys)]
        # per key subsequences of a non-decreasing sequence are non-decreasing
    else:
        vals = draw(st.lists(value_of(mono or 'int'), min_size=len(keys), max_size=len(keys)))
    return [[k, v] for k, v in zip(keys, vals)]


def weighted_text(chars, max_size=10):
    """Strings whose characters come from the strategy `chars` with ITS weighting.  (st.text(alphabet=one_of(...)) merges
    the alternatives into one code-point set, so hand-picked special characters would almost never be drawn.)"""
    return st.lists(chars, max_size=max_size).map(''.join)
