"""Reference model: single-lifetime operator objects (DESIGN.md 2.4).

An Op is created fresh for every key lifetime; state lives in plain attributes.
No key tuples, no store, no slot arithmetic, no typed arrays.

    op.start()     -> outputs at subscription time (plain mode only)
    op.next(v)     -> outputs caused by item v
    op.complete()  -> outputs caused by the completion of the lifetime
    op.done        -> plain mode: the operator completed early (take / first)

Two modes: 'mux' (take/first never end a lifetime) and 'plain' (they complete
downstream at once and upstream stops).
"""
import copy
from fractions import Fraction


def snap(v):
    if isinstance(v, (list, dict, set)):
        return copy.deepcopy(v)
    if type(v) is tuple:
        return tuple(snap(x) for x in v)
    return v


class OutOfDomain(Exception):
    """The model says the case is outside the domain of the property (e.g. mean of nothing)."""


class MCtx(object):
    """Per model-run context."""

    def __init__(self, mode='mux'):
        self.mode = mode
        self.empty_guard = []     # kinds of first/last/mean(reduce) nodes that saw an empty lifetime
        self.actions = []         # do_action log
        self.printed = []         # progress lines
        self.roll_flush = 'open'  # order in which partial windows are flushed (property: opening order)


class Op(object):
    done = False
    finished = False

    def start(self):
        return []

    def next(self, v):
        return [v]

    def complete(self):
        return []


class Map(Op):
    def __init__(self, f):
        self.f = f

    def next(self, v):
        return [self.f(v)]


class Filter(Op):
    def __init__(self, p):
        self.p = p

    def next(self, v):
        return [v] if self.p(v) else []


class FlatMap(Op):
    def next(self, v):
        return list(v)


class DoAction(Op):
    def __init__(self, ctx):
        self.ctx = ctx

    def next(self, v):
        self.ctx.actions.append(snap(v))
        return [v]


class Scan(Op):
    """The list definition: running left fold from a fresh seed."""

    def __init__(self, acc, seed, reduce=False, terminator=None):
        self.acc = acc
        self.seed = seed          # factory returning a fresh seed
        self.reduce = reduce
        self.term = terminator
        self.has = False
        self.state = None

    def next(self, v):
        if not self.has:
            self.state = self.seed()
            self.has = True
        self.state = self.acc(self.state, v)
        return [] if self.reduce else [self.state]

    def complete(self):
        out = []
        if not self.has:
            self.state = self.seed()
            self.has = True
        if self.term is not None:
            self.state = self.term(self.state)
            if not self.reduce:
                out.append(self.state)
        if self.reduce:
            out.append(self.state)
        return out


class Prefix(Op):
    """Operators defined on the prefix of items seen so far: emits f(prefix)
    per item (streaming) or f(all) once at completion (reduce)."""

    def __init__(self, f, reduce=False, empty=None):
        self.f = f
        self.reduce = reduce
        self.xs = []
        self.empty = empty      # () -> value emitted by reduce on an empty lifetime

    def next(self, v):
        self.xs.append(v)
        return [] if self.reduce else [self.f(self.xs)]

    def complete(self):
        if not self.reduce:
            return []
        if not self.xs:
            return [self.empty()]
        return [self.f(self.xs)]


class EmptyGuard(Op):
    """Marks the run when a first / last / mean(reduce) node sees an empty lifetime."""

    def __init__(self, ctx, kind, inner):
        self.ctx = ctx
        self.kind = kind
        self.inner = inner
        self.n = 0

    def start(self):
        return self.inner.start()

    def next(self, v):
        self.n += 1
        r = self.inner.next(v)
        self.done = self.inner.done
        return r

    def complete(self):
        if self.n == 0:
            self.ctx.empty_guard.append(self.kind)
            if self.kind == 'mean':
                raise OutOfDomain('mean(reduce=True) of an empty sequence is 0/0')
        return self.inner.complete()


class First(Op):
    def __init__(self, ctx):
        self.ctx = ctx
        self.seen = False

    def next(self, v):
        if self.seen:
            return []
        self.seen = True
        if self.ctx.mode == 'plain':
            self.done = True
        return [v]


class Last(Op):
    def __init__(self):
        self.has = False
        self.v = None

    def next(self, v):
        self.has = True
        self.v = v
        return []

    def complete(self):
        return [self.v] if self.has else []


class Take(Op):
    def __init__(self, ctx, n):
        self.ctx = ctx
        self.n = n
        self.left = n

    def start(self):
        if self.ctx.mode == 'plain' and self.n == 0:
            self.done = True
        return []

    def next(self, v):
        if self.left <= 0:
            return []
        self.left -= 1
        if self.left == 0 and self.ctx.mode == 'plain':
            self.done = True
        return [v]


class Distinct(Op):
    def __init__(self, key=None):
        self.key = key
        self.seen = []

    def next(self, v):
        k = self.key(v) if self.key else v
        for s in self.seen:
            if s == k:
                return []
        self.seen.append(k)
        return [v]


class DistinctUntilChanged(Op):
    def __init__(self, key=None):
        self.key = key
        self.has = False
        self.prev = None

    def next(self, v):
        k = self.key(v) if self.key else v
        if self.has and not (k != self.prev):
            self.prev = k
            return []
        self.has = True
        self.prev = k
        return [v]


class Lag(Op):
    def __init__(self, n):
        self.n = n
        self.xs = []

    def next(self, v):
        self.xs.append(v)
        i = len(self.xs) - 1
        return [(self.xs[max(0, i - self.n)], v)]


class PadStart(Op):
    def __init__(self, n, value):
        self.n = n
        self.value = value
        self.first = True

    def next(self, v):
        if self.first:
            self.first = False
            p = self.value if self.value is not None else v
            return [p] * self.n + [v]
        return [v]


class PadEnd(Op):
    def __init__(self, n, value):
        self.n = n
        self.value = value
        self.has = False
        self.last = None

    def next(self, v):
        self.has = True
        self.last = v
        return [v]

    def complete(self):
        if not self.has:
            return []
        p = self.value if self.value is not None else self.last
        return [p] * self.n


class StartWith(Op):
    def __init__(self, vals):
        self.vals = list(vals)
        self.first = True

    def next(self, v):
        if self.first:
            self.first = False
            return self.vals + [v]
        return [v]


class Batch(Op):
    def __init__(self, n):
        self.n = n
        self.buf = []

    def next(self, v):
        self.buf.append(v)
        if len(self.buf) == self.n:
            b, self.buf = self.buf, []
            return [b]
        return []

    def complete(self):
        if self.buf:
            b, self.buf = self.buf, []
            return [b]
        return []


class Progress(Op):
    def __init__(self, ctx, name, threshold):
        self.ctx = ctx
        self.name = name
        self.thr = threshold
        self.i = 0

    def next(self, v):
        self.i += 1
        if self.thr > 0 and self.i % self.thr == 0:
            self.ctx.printed.append('{} progress: {}'.format(self.name, self.i))
        elif self.thr <= 0:
            self.ctx.printed.append('{} progress: {}'.format(self.name, self.i))
        return [v]


# ---------------------------------------------------------------------------
# chains

class Chain(Op):
    """A pipeline for one lifetime.

    Outputs are produced lazily (generators) and consumed depth-first, so that an
    output is pushed through the rest of the pipeline before the operator that
    produced it continues — the order of side effects of the real, synchronous
    push implementation (it matters for accumulators that mutate and re-emit
    the same object)."""

    def __init__(self, ctx, ops):
        self.ctx = ctx
        self.ops = ops
        self.closed_at = -1       # plain mode: ops[0..closed_at] no longer receive anything
        self.top = False          # the top-level chain copies mutable outputs when they leave (as the drivers do)

    def _feed(self, idx, vals):
        for v in vals:
            if idx <= self.closed_at:
                break
            if idx == len(self.ops):
                yield snap(v) if self.top else v
                continue
            op = self.ops[idx]
            if op.finished:
                break
            for o in self._feed(idx + 1, op.next(v)):
                yield o
            if op.done and not op.finished:
                op.finished = True
                self.closed_at = max(self.closed_at, idx)
                for o in self._complete_from(idx + 1):
                    yield o

    def _complete_from(self, idx):
        for k in range(idx, len(self.ops)):
            op = self.ops[k]
            if op.finished:
                continue
            op.finished = True
            for o in self._feed(k + 1, op.complete()):
                yield o

    def start(self):
        if self.ctx.mode != 'plain':
            return
        for k in reversed(range(len(self.ops))):
            op = self.ops[k]
            for o in self._feed(k + 1, op.start()):
                yield o
            if op.done and not op.finished:
                op.finished = True
                self.closed_at = max(self.closed_at, k)
                for o in self._complete_from(k + 1):
                    yield o
                break

    def next(self, v):
        if self.closed_at >= 0:
            return iter(())
        return self._feed(0, [v])

    def complete(self):
        if self.closed_at >= 0:
            return iter(())
        return self._complete_from(0)


class Tee(Op):
    def __init__(self, ctx, branches, join):
        self.ctx = ctx
        self.branches = branches        # list of Chain
        self.join = join
        n = len(branches)
        self.latest = [None] * n
        self.has = [False] * n
        self.bdone = [False] * n

    def _join(self, i, vals):
        n = len(self.branches)
        for v in vals:
            if self.join == 'merge':
                yield v
            elif self.join == 'zip':
                self.latest[i] = v
                self.has[i] = True
                if all(self.has):
                    t = tuple(self.latest)
                    self.has = [False] * n
                    if self.ctx.mode == 'mux':
                        self.latest = [None] * n
                    yield t
            else:
                self.latest[i] = v
                self.has[i] = True
                yield tuple(self.latest)

    def _check_done(self):
        if self.ctx.mode == 'plain' and all(self.bdone):
            self.done = True

    def start(self):
        if self.ctx.mode != 'plain':
            return
        for i, b in enumerate(self.branches):
            for o in self._join(i, b.start()):
                yield o
            if b.closed_at >= 0:
                self.bdone[i] = True
        self._check_done()

    def next(self, v):
        for i, b in enumerate(self.branches):
            if self.bdone[i]:
                continue
            for o in self._join(i, b.next(v)):
                yield o
            if self.ctx.mode == 'plain' and b.closed_at >= 0:
                self.bdone[i] = True
        self._check_done()

    def complete(self):
        for i, b in enumerate(self.branches):
            if self.bdone[i]:
                continue
            for o in self._join(i, b.complete()):
                yield o
            self.bdone[i] = True


# ---------------------------------------------------------------------------
# windows / groups (mux only); `inner` is a factory returning a fresh Chain

class GroupBy(Op):
    def __init__(self, keyf, inner):
        self.keyf = keyf
        self.inner = inner
        self.groups = []          # (key, chain) in order of first appearance

    def next(self, v):
        k = self.keyf(v)
        for gk, ch in self.groups:
            if gk == k:
                return ch.next(v)
        ch = self.inner()
        self.groups.append((k, ch))
        return ch.next(v)

    def complete(self):
        for _, ch in self.groups:
            for o in ch.complete():
                yield o


class Roll(Op):
    def __init__(self, ctx, w, s, inner):
        self.ctx = ctx
        self.w = w
        self.s = s
        self.inner = inner
        self.n = 0
        self.density = -(-w // s)
        self.open = []            # dicts {j, slot, count, chain} in opening order

    def next(self, v):
        if self.n % self.s == 0:
            j = self.n // self.s
            self.open.append({'j': j, 'slot': j % self.density, 'count': 0, 'chain': self.inner()})
        self.n += 1
        # the order in which one item reaches several open windows is not part
        # of the specification; slot order mirrors the implementation so that
        # exact comparisons are possible where nothing else differs.
        for win in sorted(self.open, key=lambda x: x['slot']):
            for o in win['chain'].next(v):
                yield o
            win['count'] += 1
            if win['count'] == self.w:
                self.open.remove(win)
                for o in win['chain'].complete():
                    yield o

    def complete(self):
        wins = list(self.open)
        self.open = []
        if self.ctx.roll_flush == 'slot':
            wins.sort(key=lambda x: x['slot'])
        for win in wins:
            for o in win['chain'].complete():
                yield o


class Split(Op):
    def __init__(self, pred, inner):
        self.pred = pred
        self.inner = inner
        self.cur = None

    def next(self, v):
        p = self.pred(v)
        if self.cur is None:
            self.cur = [p, self.inner()]
        elif p != self.cur[0]:
            old = self.cur[1]
            self.cur = [p, self.inner()]
            for o in old.complete():
                yield o
        for o in self.cur[1].next(v):
            yield o

    def complete(self):
        if self.cur is None:
            return
        cur, self.cur = self.cur, None
        for o in cur[1].complete():
            yield o


class TimeSplit(Op):
    """Statement of C07 transcribed; after an included closing item the next
    window exists immediately (possibly staying empty), as in the implementation —
    checks that must not depend on that compare non-empty windows only."""

    def __init__(self, tm, active, inactive, closing, include, inner):
        self.tm = tm
        self.active = active
        self.inactive = inactive
        self.closing = closing
        self.include = include
        self.inner = inner
        self.cur = None
        self.ref = None
        self.last = None

    def next(self, v):
        ts = self.tm(v)
        if self.cur is None:
            self.cur = self.inner()
            self.ref = ts
            self.last = ts
        expired = (self.active is not None and ts >= self.ref + self.active) or \
                  (self.inactive is not None and ts >= self.last + self.inactive)
        if expired:
            old = self.cur
            self.cur = self.inner()
            self.ref = ts
            self.last = ts
            for o in old.complete():
                yield o
            for o in self.cur.next(v):
                yield o
        elif self.closing is not None and self.closing(v):
            self.ref = ts
            self.last = ts
            old = self.cur
            self.cur = self.inner()
            if self.include:
                for o in old.next(v):
                    yield o
                for o in old.complete():
                    yield o
            else:
                for o in old.complete():
                    yield o
                for o in self.cur.next(v):
                    yield o
        else:
            self.last = ts
            for o in self.cur.next(v):
                yield o

    def complete(self):
        if self.cur is None:
            return
        cur, self.cur = self.cur, None
        for o in cur.complete():
            yield o


# ---------------------------------------------------------------------------
# list definitions of the math operators (exact where the code is exact)

def exact_var(xs, ddof):
    n = len(xs)
    if n < 2 and ddof == 1:
        return 0.0
    if n == 0:
        return 0.0
    fx = [Fraction(x) for x in xs]
    m = sum(fx) / n
    ss = sum((x - m) ** 2 for x in fx)
    d = n - ddof
    return float(ss / d)


def run(chain, items, complete=True):
    """-> list of (event_index, value); event 0 = subscription, i = i-th item (1-based), n+1 = completion."""
    chain.top = True
    out = [(0, v) for v in chain.start()]
    for i, x in enumerate(items):
        for v in chain.next(x):
            out.append((i + 1, v))
    if complete:
        for v in chain.complete():
            out.append((len(items) + 1, v))
    return out
