"""C11 — streaming promptness: every output is emitted with the item that determines it."""
from hypothesis import strategies as st
import rxsci as rs

from vf.core import Sub, Violation
from vf import ast as A, gen, drive, cmp, harness as H

PID = 'C11'
LEVEL = 'exploration'
RULE = ("Hypothesis generates type-correct pipelines (windows, groups, tees nested to depth 3 in multiplexed mode; the dual-mode "
        "catalogue incl. tee_map with early-completing branches in plain mode) and inputs of 0..14 ints; the source is a Subject "
        "pushed one item at a time, every output is stamped with the push during which it appeared (0 = subscription, n+1 = "
        "completion) and the per-step multisets are compared with the timed reference model. Non-trivial: the pipeline contains a "
        "window / group / batch / tee node, at least one output is expected before the completion step and at least one at it.")
ASSUMPTIONS = [
    'rxsci is synchronous: an output caused by an item is emitted inside the on_next call of that item',
    'order inside one step is not compared here (C04/C05/C08 do); floats produced by different algorithms are compared with rel. tol. 1e-9',
    'user functions are total and pure; pipelines are type-correct by construction',
]

STRUCT = {'group_by', 'roll', 'split', 'time_split', 'tee', 'batch'}


def _compare(case, mode):
    p, items = case['p'], case['items']
    n = len(items)
    exp, ctx = H.model_events(p, items, mode)
    if mode == 'plain' and ctx.empty_guard:
        from vf.core import Reject
        raise Reject()
    env = A.Env()
    if mode == 'mux':
        r = drive.stepped(items, lambda src: src.pipe(rs.state.with_memory_store(A.build_pipeline(p, env))))
    else:
        ops = A.build_pipeline(p, env)
        if case.get('reuse'):
            # the operator objects first serve another plain source whose subscriber leaves after one output (a new
            # observable is built each time): the timed run below must not find anything left over
            import rx
            import rx.operators as rxops
            drive.collect(rx.from_(list(items)).pipe(*ops, rxops.take(1)))
            env.actions[:] = []
        r = drive.stepped(items, lambda src: src.pipe(*ops))
    H.require_clean(r.res, 'stepped ' + mode, pipeline=p, items=items)
    es, gs = H.by_step(exp, n), H.by_step(r.out, n)
    for step in range(n + 2):
        if not cmp.same_bag(gs[step], es[step]):
            late = [v for v in es[step] if not any(cmp.same(v, g) for g in gs[step])]
            raise Violation(
                'outputs at step %d of %d differ from the timed model (%s)' % (step, n + 1, 'missing/late' if late else 'extra/early'),
                step=step, expected_at_step=es[step], got_at_step=gs[step], pipeline=p, items=items,
                expected=exp, got=r.out)
    kinds = set(A.kinds_in(p))
    before = any(s <= n for s, _ in exp)
    at_end = any(s == n + 1 for s, _ in exp)
    labels = H.labels_of(p)
    if before:
        labels.append('out-before-end')
    if at_end:
        labels.append('out-at-end')
    return {'nontrivial': bool(kinds & STRUCT) and before and at_end, 'labels': labels}


def check_mux(case):
    return _compare(case, 'mux')


def check_plain(case):
    return _compare(case, 'plain')


@st.composite
def plain_case(draw):
    case = draw(H.pipeline_case(PLAIN, max_items=14, min_len=1))
    case['reuse'] = draw(st.booleans())
    return case


MUX = gen.Opts(mux=True, max_depth=3, max_len=4, weights={'window': 9, 'tee': 5})
PLAIN = gen.Opts(mux=False, max_depth=2, max_len=4, weights={'tee': 6, 'seq': 6})


def big_enum(tier):
    """batch sizes beyond CPython's small-int cache, alone and inside tumbling windows"""
    for n in (256, 257, 300):
        yield {'tin': 'int', 'p': [['batch', n]], 'items': [i % 5 for i in range(2 * n + 3)]}
        yield {'tin': 'int', 'p': [['roll', n + 100, n + 100, [['batch', n]]]], 'items': [i % 5 for i in range(2 * n + 250)]}


def subs(tier):
    return [
        Sub('mux', check_mux, gen=lambda: H.pipeline_case(MUX, max_items=14, min_len=1), examples={'quick': 2500, 'thorough': 250000},
            doc='with_memory_store(pipeline) on a stepped source vs timed model, per-step multisets'),
        Sub('big', check_mux, enum=big_enum, doc='large batch sizes (256, 257, 300), alone and inside roll: every batch appears with its closing item'),
        Sub('big_plain', check_plain, enum=lambda tier: (c for c in big_enum(tier) if c['p'][0][0] == 'batch'), doc='the same on plain observables'),
        Sub('plain', check_plain, gen=plain_case, examples={'quick': 1500, 'thorough': 120000},
            doc='the dual-mode operators on a plain stepped observable (take/first complete early) vs timed model'),
    ]
