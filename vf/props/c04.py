"""C04 — group_by partitions the stream by key, preserving order within each group."""
from hypothesis import strategies as st
import rx
import rxsci as rs

from vf.core import Sub, Violation, Reject
from vf import ast as A, gen, drive, cmp, harness as H, model as M, keys

PID = 'C04'
LEVEL = 'exploration'
RULE = ("Hypothesis draws items (key, value) whose keys are built at run time from a pool of equal-but-not-identical objects (10**20+k, "
        "tuples, joined strings, 1 / 1.0 / True, None, small ints; 1..8 distinct keys), an inner pipeline (to_list, identity or an "
        "arbitrary stateful pipeline) and an optional parent (group_by / roll / split around the group_by). Oracles: a tap at the head "
        "of the inner pipeline must see, per group in order of creation, exactly the complete subsequence of the items whose key is "
        "== (reference: partition with a list scan, no hashing); the full output sequence must equal the reference model's (results as "
        "produced, open groups completed in order of first appearance at parent completion). Non-trivial: >= 2 distinct keys, a key "
        "whose items are not adjacent, and a repeated key whose occurrences are distinct objects.")
ASSUMPTIONS = [
    'keys are hashable and == is an equivalence consistent with hash (no NaN)',
    'inner pipelines contain only total, pure user functions',
]

INNER = gen.Opts(mux=True, max_depth=1, max_len=3, exact=False, weights={'item': 2, 'fold': 5, 'seq': 5, 'muxseq': 4, 'window': 2, 'tee': 2})


def vfn(f):
    """lift a function on ints to (key, value) items"""
    return lambda i: f(i[1])


def parent_real(spec, ops):
    if spec is None:
        return ops
    if spec[0] == 'gb+roll':      # interleaved outer groups over overlapping windows: parent key indexes are created with jumps
        return [rs.ops.group_by(vfn(A.f_mod(spec[1])), [rs.data.roll(spec[2], spec[3], ops)])]
    if spec[0] == 'group_by':
        return [rs.ops.group_by(vfn(A.f_gkey(spec[1])), ops)]
    if spec[0] == 'roll':
        return [rs.data.roll(spec[1], spec[2], ops)]
    return [rs.data.split(vfn(A.splitf(spec[1], spec[2])), ops)]


def parent_model(spec, ctx, inner):
    if spec is None:
        return inner()
    if spec[0] == 'gb+roll':
        return M.Chain(ctx, [M.GroupBy(vfn(A.f_mod(spec[1])), lambda: M.Chain(ctx, [M.Roll(ctx, spec[2], spec[3], inner)]))])
    if spec[0] == 'group_by':
        return M.Chain(ctx, [M.GroupBy(vfn(A.f_gkey(spec[1])), inner)])
    if spec[0] == 'roll':
        return M.Chain(ctx, [M.Roll(ctx, spec[1], spec[2], inner)])
    return M.Chain(ctx, [M.Split(vfn(A.splitf(spec[1], spec[2])), inner)])


@st.composite
def case_gen(draw):
    # a FRESH NaN per item equals nothing (itself included): one group per item; a shared NaN object is not generated (the
    # implementation's dict would find it by identity, which 'equal by ==' neither demands nor forbids)
    pool = draw(st.lists(st.one_of(keys.SPEC, keys.SPEC, keys.SPEC, keys.SPEC, st.just(['nan', 1])), min_size=1, max_size=8))
    pool = keys.compatible(pool)
    n = draw(st.sampled_from([0, 1, 3, 6]))
    items = draw(st.lists(st.tuples(st.integers(0, len(pool) - 1), st.integers(-8, 8)).map(list), min_size=n, max_size=14))
    which = draw(st.sampled_from(['to_list', 'identity', 'p', 'p']))
    p = draw(gen.chain('int', INNER, 1, min_len=1)) if which == 'p' else ([['to_list']] if which == 'to_list' else [])
    parent = draw(st.one_of(st.none(), st.none(), st.sampled_from([['group_by', 2], ['roll', 3, 2], ['roll', 2, 2], ['roll', 4, 1], ['split', 'div', 4], ['split', 'mod', 2], ['gb+roll', 2, 3, 1], ['gb+roll', 3, 2, 1], ['gb+roll', 2, 4, 2]])))
    return {'pool': pool, 'items': items, 'p': p, 'parent': parent, 'buffer': draw(st.integers(0, 3)) == 0, 'transient': draw(st.integers(0, 2)) == 0,
            'kf_form': draw(st.sampled_from(['lambda', 'lambda', 'default_arg', 'partial', 'obj']))}


def check(case):
    pool, p, parent = case['pool'], case['p'], case['parent']
    objs = [(keys.mk(pool[k]), v) for k, v in case['items']]     # a fresh key object per item
    if case.get('transient'):
        # the key mapper COMPUTES its value: the key object exists only during the call (its address is free for the next one)
        src_items = [(k, v) for k, v in case['items']]
        keyf = lambda i: keys.mk(pool[i[0]])
    else:
        src_items = objs
        keyf = lambda i: i[0]
    norm = (lambda i: (keys.mk(pool[i[0]]), i[1])) if case.get('transient') else (lambda i: (i[0], i[1]))
    # the key mapper is a one-argument callable in any form: a lambda with a defaulted extra parameter, a partial, an object
    base_keyf, form = keyf, case.get('kf_form', 'lambda')
    if form == 'default_arg':
        keyf = lambda i, f=base_keyf: f(i)
    elif form == 'partial':
        import functools
        keyf = functools.partial(lambda f, i: f(i), base_keyf)
    elif form == 'obj':
        class _KF(object):
            def __call__(self, i, _f=base_keyf):
                return _f(i)
        keyf = _KF()
    ctx = {'pool': pool, 'items': case['items'], 'pipeline': p, 'parent': parent}

    # ---- reference
    mctx = M.MCtx('mux')
    try:
        def inner():
            return M.Chain(mctx, [M.GroupBy(lambda i: i[0], lambda: M.Chain(mctx, [M.Map(lambda i: i[1])] + A.model_chain(p, mctx).ops))])
        chain = parent_model(parent, mctx, inner)
        exp = [v for _, v in M.run(chain, objs)]
    except M.OutOfDomain:
        raise Reject()

    # ---- real
    head, tail = [], []
    inner_ops = [drive.tap(head), rs.ops.map(lambda i: i[1])] + A.build_pipeline(p, A.Env()) + [drive.tap(tail)]
    if case.get('buffer'):
        # the source re-uses ONE mutable record, updated in place before each emission (a row buffer); the first stage of
        # the group pipeline copies it.  Every delivery is the identical object, its key is the key it has at that time.
        inner_ops = [rs.ops.map(norm)] + inner_ops
        ops = parent_real(parent, [rs.ops.group_by(keyf, inner_ops)])

        def rows():
            buf = [None, None]
            for k, v in src_items:
                buf[0], buf[1] = k, v
                yield buf
        r = drive.collect(rx.from_(rows()).pipe(rs.state.with_memory_store(ops)))
    else:
        if case.get('transient'):
            inner_ops = [rs.ops.map(norm)] + inner_ops
        ops = parent_real(parent, [rs.ops.group_by(keyf, inner_ops)])
        r = drive.store(src_items, ops)
    H.require_clean(r, 'group_by run', **ctx)
    if not cmp.same_seq(r.items, exp, approx=True):
        raise Violation('output sequence differs from the reference partition model', expected=exp, got=r.items, **ctx)

    # ---- partition seen at the head of the inner pipeline (top-level group_by only: one parent lifetime)
    if parent is None:
        groups = []      # reference: list scan with ==
        for k, v in objs:
            for g in groups:
                if g[0] == k:
                    g[1].append((k, v))
                    break
            else:
                groups.append((k, [(k, v)]))
        lts = drive.lifetimes_of(head)
        if len(lts) != len(groups):
            raise Violation('%d groups created for %d distinct keys' % (len(lts), len(groups)),
                            groups=[l['items'] for l in lts], **ctx)
        for lt, (k, its) in zip(lts, groups):
            if lt.get('orphan') or not lt['closed']:
                raise Violation('group lifecycle incomplete', group=lt['items'], **ctx)
            if not cmp.same_seq(lt['items'], its, approx=False):
                raise Violation('group of key %r did not receive exactly its subsequence' % (k,), expected=its, got=lt['items'], **ctx)
        closes = [l['close_at'] for l in lts]
        if closes != sorted(closes):
            raise Violation('groups are not completed in order of first appearance', **ctx)
        if any(l['close_at'] < len(head) - 1 - len(lts) for l in lts):
            raise Violation('a group was completed before the parent completed', **ctx)

    kseq = [k for k, _ in case['items']]
    eq_classes = []
    for k, _ in objs:
        if not any(k == e for e in eq_classes):
            eq_classes.append(k)
    nonadj = any(objs[i][0] != objs[i + 1][0] and any(objs[i][0] == objs[j][0] for j in range(i + 2, len(objs))) for i in range(len(objs) - 1))
    eqni = any(objs[i][0] == objs[j][0] and objs[i][0] is not objs[j][0] for i in range(len(objs)) for j in range(i + 1, len(objs)))
    labels = ['keys=%d' % min(len(eq_classes), 5), 'inner:' + ('p' if p and p != [['to_list']] else ('to_list' if p else 'identity')),
              'parent:' + (parent[0] if parent else 'none')]
    if case.get('buffer'):
        labels.append('reused-row-buffer')
    if case.get('transient'):
        labels.append('computed-keys')
    if eqni:
        labels.append('equal-not-identical')
    if any(type(a) is not type(b) and a == b for a in eq_classes for (b, _) in objs):
        labels.append('cross-type-equal')
    return {'nontrivial': len(eq_classes) >= 2 and nonadj and eqni, 'labels': labels}


def many_enum(tier):
    for n in (258, 300, 520):
        for inner in ('count', 'to_list'):
            yield {'n': n, 'inner': inner}


def check_many(case):
    """Several hundred distinct keys in ONE group_by, a stateful operator inside: every group is created, fed and completed."""
    n = case['n']
    items = [(k, r) for r in range(2) for k in range(n)] + [(0, 2)]
    inner = [rs.ops.map(lambda i: i[1]), rs.ops.count(reduce=True) if case['inner'] == 'count' else rs.data.to_list()]
    r = drive.store(items, [rs.ops.group_by(lambda i: i[0], inner)])
    H.require_clean(r, 'group_by with %d groups' % n, **case)
    exp = [(3 if k == 0 else 2) if case['inner'] == 'count' else ([0, 1, 2] if k == 0 else [0, 1]) for k in range(n)]
    if r.items != exp:
        first = next((j for j, (a, b) in enumerate(zip(r.items, exp)) if a != b), min(len(r.items), len(exp)))
        raise Violation('group_by over %d distinct keys: results differ' % n, results=len(r.items), first_difference_at=first, **case)
    return {'nontrivial': True, 'labels': ['groups=%d' % n, 'inner:' + case['inner']]}


def subs(tier):
    return [
        Sub('many_groups', check_many, enum=many_enum, doc='258-520 distinct keys in one group_by with a stateful inner operator'),
        Sub('partition', check, gen=case_gen, examples={'quick': 3000, 'thorough': 200000},
            doc='group_by over equal-not-identical keys: head-tap partition + full output vs list-scan reference model'),
    ]
