"""C20 — parquet dump/load round-trips rows for every row count and batch size."""
import os
import shutil
import tempfile

import pyarrow as pa
import pyarrow.parquet as pq
from hypothesis import strategies as st
import rx
import rxsci.container.parquet as parquet

from vf.core import Sub, Violation, Reject
from vf import drive, harness as H
from vf.bytesgen import rand_bytes

PID = 'C20'
LEVEL = 'exploration'
RULE = ("Row counts 0..5000 (biased to 0, b-1, b, b+1, 2b, 2b+1 for the dump batch size b), dump batch_size 1..2000, load batch_size "
        "1..2000, row_group_size None/small, compression NONE/snappy/gzip/zstd, schemas mixing int64, string, float64, struct and "
        "list<int64> columns (rows expanded deterministically from a drawn seed), written through a path or an open file object. "
        "Oracles: pyarrow.parquet.read_table(file).to_pylist() == rows (exactly once each, in order) AND load_from_file(file, "
        "batch_size) == rows, both streams complete without error. Sub 'boundary' enumerates all row counts 0..2b+1 for small b. "
        "Non-trivial: rows > dump batch size (>= 2 batches) or rows a positive multiple of it.")
ASSUMPTIONS = ['values are finite (no NaN) and fit their column type', 'pyarrow.parquet.read_table is trusted as the independent reader']

COLS = {
    'i': pa.int64(), 's': pa.string(), 'f': pa.float64(),
    'st': pa.struct([('a', pa.int64()), ('b', pa.string())]), 'l': pa.list_(pa.int64()),
}


def make_rows(cols, n, seed, nulls=False):
    r = rand_bytes(seed, 4 * n + 8)
    rows = []
    for k in range(n):
        b = r[4 * k: 4 * k + 4]
        row = {}
        for c in cols:
            if c == 'i':
                row[c] = k * 7 - 3 + b[0]
            elif c == 's':
                row[c] = 'r%d-%s' % (k, 'é' * (b[1] % 3))
            elif c == 'f':
                row[c] = float('nan') if (nulls and b[2] % 11 == 0) else (k - 5) * 0.25 + b[2] / 256.0
            elif c == 'st':
                row[c] = {'a': k, 'b': 'x' * (b[3] % 4)}
            else:
                row[c] = [k + j for j in range(b[0] % 4)]
            if nulls and (b[1] + 3 * len(c) + k) % 5 == 0:
                row[c] = None         # every column is nullable
        if (b[2] + k) % 3 == 0:
            row = dict(reversed(list(row.items())))     # same content, other key order: rows are looked up by column NAME
        rows.append(row)
    return rows


def same_rows(a, b):
    """row lists equal, NaN == NaN, None is not NaN"""
    def eq(x, y):
        if isinstance(x, float) and isinstance(y, float) and x != x and y != y:
            return True
        if isinstance(x, dict) and isinstance(y, dict):
            return x.keys() == y.keys() and all(eq(x[k], y[k]) for k in x)
        if isinstance(x, list) and isinstance(y, list):
            return len(x) == len(y) and all(eq(p, q) for p, q in zip(x, y))
        return type(x) is type(y) and x == y
    return eq(a, b)


def run_case(case):
    cols = case['cols']
    rows = make_rows(cols, case['rows'], case['seed'], case.get('nulls', False))
    # column NAMES are arbitrary strings: also ones that are attribute / method names of the row dicts
    rename = {'i': 'values', 's': 'items', 'f': 'keys', 'st': 'copy', 'l': 'get'} if case.get('names') == 'methods' else {}
    if case.get('names') == 'human':        # headers as people write them: blanks, brackets, punctuation
        rename = {'i': 'unit price (eur)', 's': 'sensor.name', 'f': 'sensor.ratio = a/b', 'st': 'geo;point', 'l': 'tags, all'}
    if case.get('nonnull') and not case.get('nulls'):
        schema = pa.schema([pa.field(rename.get(c, c), COLS[c], nullable=False) for c in cols])      # NOT NULL columns
    else:
        schema = pa.schema([(rename.get(c, c), COLS[c]) for c in cols])
    if case.get('fat') and 's' in cols and len(rows) >= 3:
        # rows of very different sizes: two strings of ~700 KB after a few small rows (one record batch of more than a megabyte)
        for k in (len(rows) // 2, len(rows) // 2 + 1):
            if rows[k].get('s') is not None:
                rows[k]['s'] = ('%d-' % k) + 'z' * 700000
    rows = [{rename.get(c, c): v for c, v in row.items()} for row in rows]
    ctx = dict(case)
    d = tempfile.mkdtemp(prefix='rxsci_c20_')
    try:
        f = os.path.join(d, 'x.parquet')
        kw = {'batch_size': case['dump_batch'], 'row_group_size': case['row_group'], 'compression': case['compression']}
        if case['fileobj']:
            with open(f, 'wb') as fo:
                w = drive.collect(rx.from_(rows).pipe(parquet.dump_to_file(fo, schema, **kw)))
        elif case.get('live'):
            # a live source; the file is read with pyarrow from INSIDE the completion callback: completion means the footer is written
            from rx.subject import Subject
            src, inside, w = Subject(), [], drive.Result()

            def done():
                w.completed += 1
                try:
                    inside.append(pq.read_table(f).num_rows)
                except Exception as e:
                    inside.append(e)
            src.pipe(parquet.dump_to_file(f, schema, **kw)).subscribe(on_next=w.items.append, on_error=lambda e: setattr(w, 'error', e), on_completed=done)
            for row in rows:
                src.on_next(row)
            src.on_completed()
            if w.completed == 1 and w.error is None and inside[0] != len(rows):
                raise Violation('parquet.dump_to_file signalled completion before the file was complete (read from the completion callback: %r)' % (inside[0],), **ctx)
        else:
            dump = rx.from_(rows).pipe(parquet.dump_to_file(f, schema, **kw))
            w = drive.collect(dump)
            if case.get('twice'):
                # the same dump observable run again (a retried / repeated export) rewrites the file with the same rows
                H.require_clean(w, 'parquet.dump_to_file (first run)', **ctx)
                w = drive.collect(dump)
        H.require_clean(w, 'parquet.dump_to_file', **ctx)
        if w.items:
            raise Violation('dump_to_file emitted items', **ctx)
        if not os.path.exists(f) or os.path.getsize(f) == 0:
            raise Violation('parquet.dump_to_file completed without writing a parquet file', **ctx)
        try:
            table = pq.read_table(f).to_pylist()
        except Exception as e:
            raise Violation('the written file is not readable by pyarrow: %r' % e, **ctx)
        if not same_rows(table, rows):
            raise Violation('file holds %d rows, %d were written%s' % (
                len(table), len(rows), '' if len(table) != len(rows) else ' (contents differ)'),
                first_rows_in_file=table[:3], first_rows_written=rows[:3], **ctx)
        if case['fileobj']:
            with open(f, 'rb') as fo:
                if case.get('cursor'):
                    fo.read(4)          # e.g. the caller sniffed the PAR1 magic: a parquet reader addresses the file by absolute offsets
                r = drive.collect(parquet.load_from_file(fo, batch_size=case['load_batch']))
        else:
            loader = parquet.load_from_file(f, batch_size=case['load_batch'])
            r = drive.collect(loader)
            if case.get('twice'):
                H.require_clean(r, 'parquet.load_from_file (first pass)', **ctx)
                first = r.items
                r = drive.collect(loader)          # a second pass over the same load observable reads the whole file again
                if len(r.items) != len(first):
                    raise Violation('second pass over the same load_from_file observable returned %d rows, the first %d' % (len(r.items), len(first)), **ctx)
        H.require_clean(r, 'parquet.load_from_file', **ctx)
        if not same_rows(r.items, rows):
            raise Violation('load_from_file returned %d rows, %d were written%s' % (
                len(r.items), len(rows), '' if len(r.items) != len(rows) else ' (contents differ)'), **ctx)
    finally:
        shutil.rmtree(d, ignore_errors=True)
    n, b = case['rows'], case['dump_batch']
    labels = (['nulls'] if case.get('nulls') else []) + ['compression:%s' % case['compression'], 'fileobj' if case['fileobj'] else 'path', 'cols=%d' % len(cols)]
    if n == 0:
        labels.append('rows=0')
    elif n % b == 0:
        labels.append('rows=k*batch')
    elif n < b:
        labels.append('rows<batch')
    else:
        labels.append('rows>batch')
    if case['row_group']:
        labels.append('row_group')
    return {'nontrivial': n > b or (n > 0 and n % b == 0), 'labels': labels}


@st.composite
def case_gen(draw):
    b = draw(st.one_of(st.integers(1, 8), st.integers(1, 2000), st.sampled_from([1, 2, 3, 1024])))
    rows = draw(st.one_of(
        st.sampled_from([0, max(0, b - 1), b, b + 1, 2 * b, 2 * b + 1, 3 * b]),
        st.integers(0, 60), st.integers(0, 60), st.integers(0, 300), st.integers(0, 5000)))
    rows = min(rows, 5000)
    if draw(st.integers(0, 5)) == 0:
        # a batch size beyond CPython's cached small ints (the default is 1024) and a row count that fills the last batch exactly
        b = draw(st.one_of(st.integers(257, 2000), st.sampled_from([257, 512, 1024])))
        rows = b * draw(st.integers(1, max(1, 5000 // b)))
    cols = draw(st.lists(st.sampled_from(sorted(COLS)), min_size=1, max_size=5, unique=True))
    return {'rows': rows, 'dump_batch': b, 'load_batch': draw(st.one_of(st.integers(1, 8), st.integers(1, 2000))),
            'row_group': draw(st.sampled_from([None, None, 1, 3, 100])), 'compression': draw(st.sampled_from(['NONE', 'snappy', 'gzip', 'zstd'])),
            'cols': cols, 'fileobj': draw(st.booleans()), 'seed': draw(st.integers(0, 99)), 'nulls': draw(st.booleans()), 'twice': draw(st.integers(0, 3)) == 0, 'cursor': draw(st.booleans()),
            'names': draw(st.sampled_from([None, None, 'methods', 'human'])), 'fat': draw(st.integers(0, 9)) == 0, 'nonnull': draw(st.integers(0, 2)) == 0, 'live': draw(st.integers(0, 3)) == 0}


def boundary(tier):
    bs = [1, 2, 3, 5] if tier == 'quick' else [1, 2, 3, 4, 5, 7, 16]
    for b in bs:
        for rows in range(0, 2 * b + 2):
            yield {'rows': rows, 'dump_batch': b, 'load_batch': (rows % 3) + 1, 'row_group': None, 'compression': 'snappy',
                   'cols': ['i', 's'], 'fileobj': False, 'seed': rows}


def subs(tier):
    return [
        Sub('roundtrip', run_case, gen=case_gen, examples={'quick': 220, 'thorough': 20000},
            doc='dump_to_file -> pyarrow.read_table and load_from_file, generated row counts / batch sizes / codecs / schemas'),
        Sub('boundary', run_case, enum=boundary, doc='all row counts 0..2b+1 for small dump batch sizes b'),
    ]
