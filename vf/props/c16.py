"""C16 — compression round-trips under re-chunking and flags truncated streams."""
import gzip
import io

import zstandard
from hypothesis import strategies as st
import rx
import rxsci.compression.z as z
import rxsci.compression.zstd as zstd

from vf.core import Sub, Violation, Reject
from vf import drive, harness as H
from vf.bytesgen import make_chunk, rechunk

PID = 'C16'
LEVEL = 'fault_enumeration'
RULE = ("Chunk lists (empty list, empty chunks, sizes 0..300 KB; zeros, text, SHA-256 noise, mixed) are compressed with the real "
        "compress() (gzip and zstd); the compressed bytes are re-chunked at generated positions (1-byte chunks, empty chunks at every "
        "position including after the last byte) and decompressed: the concatenation must equal the concatenation of the input and "
        "the stream must complete without error; gzip.decompress / zstandard's stream reader must accept the compressed bytes as a "
        "standalone file and agree. Sub 'truncate' enumerates EVERY proper prefix of compressed streams up to 2 KB (fed whole, in two "
        "halves and byte by byte): decompress must signal on_error, must not complete, and whatever it emitted must be a prefix of the "
        "original. Non-trivial: >= 2 input chunks and the compressed stream re-chunked into >= 3 chunks (round trip); a stream of >= "
        "32 compressed bytes (truncation).")
ASSUMPTIONS = [
    'an empty chunk is a legal element of a re-chunking at any position (DESIGN.md 1.4)',
    'non-empty trailing garbage after the end-of-stream marker is outside the property',
]

CODECS = {'gzip': z, 'zstd': zstd}
KINDS = ['zero', 'text', 'rand', 'mixed']


class Frame(bytes):
    """a bytes SUBCLASS (numpy.bytes_ is one): still a bytes object"""


INPUT = ['bytes']       # how the chunks are handed over (set per case): bytes, bytearray, memoryview; 'nested' = subscribed and fed
                        # from inside another observable's callback (a running scheduler trampoline) through a live Subject


def compress(codec, chunks, ctx):
    kind = INPUT[0]
    if kind == 'nested':
        from rx.subject import Subject
        box = []

        def run(_):
            src = Subject()
            box.append(drive.collect(src.pipe(CODECS[codec].compress())))
            for c in chunks:
                src.on_next(c)
            src.on_completed()
        rx.from_([0]).subscribe(on_next=run)
        r = box[0]
    else:
        conv = {'bytes': bytes, 'bytearray': bytearray, 'memoryview': memoryview, 'subclass': Frame}[kind]
        r = drive.collect(rx.from_([conv(c) for c in chunks]).pipe(CODECS[codec].compress()))
    H.require_clean(r, codec + ' compress (%s input)' % kind, **ctx)
    return r.items


def reference_compress(codec, data):
    if codec == 'gzip':
        return gzip.compress(data)
    return zstandard.ZstdCompressor().compress(data)


def reference_decompress(codec, data):
    if codec == 'gzip':
        return gzip.decompress(data)
    return zstandard.ZstdDecompressor().stream_reader(io.BytesIO(data)).read()


def check_roundtrip(case):
    INPUT[0] = case.get('input', 'bytes')
    codec = case['codec']
    chunks = [make_chunk(s) for s in case['chunks']]
    ctx = {'codec': codec, 'chunks': case['chunks'], 'cuts': case['cuts']}
    original = b''.join(chunks)
    comp_chunks = compress(codec, chunks, ctx)
    comp = b''.join(comp_chunks)
    try:
        ref = reference_decompress(codec, comp)
    except Exception as e:
        raise Violation('the compressed stream is not a valid standalone %s file: %r' % (codec, e), **ctx)
    if ref != original:
        raise Violation('reference decompressor disagrees with the input', **ctx)
    for mode in ('as-emitted', 'cuts', 'onebyte', 'window-multiple'):
        if mode == 'as-emitted':
            parts = comp_chunks
        elif mode == 'cuts':
            parts = rechunk(comp, case['cuts'])
        elif mode == 'window-multiple':
            # the chunk that holds the end of the stream is exactly 2 x 131075 bytes long (zstd's recommended input size)
            if len(comp) <= 262150:
                continue
            parts = [Frame(comp[:-262150]) if INPUT[0] == 'subclass' else comp[:-262150], comp[-262150:]]
        else:
            if len(comp) > 3000:
                continue
            parts = [comp[i:i + 1] for i in range(len(comp))] + [b'']
        r = drive.collect(rx.from_(parts).pipe(CODECS[codec].decompress()))
        if r.error is not None or r.raised is not None:
            raise Violation('%s decompress signalled an error on a complete stream (%s, %d chunks)' % (codec, mode, len(parts)),
                            result={'error': repr(r.error), 'raised': repr(r.raised)}, chunk_sizes=[len(p) for p in parts][:50], **ctx)
        if r.completed != 1 or r.after_end:
            raise Violation('%s decompress did not complete exactly once' % codec, **ctx)
        if b''.join(r.items) != original:
            raise Violation('%s round trip differs (%s)' % (codec, mode), got_len=len(b''.join(r.items)), want_len=len(original), **ctx)
    parts = rechunk(comp, case['cuts'])
    labels = ['input:' + case.get('input', 'bytes'), codec, 'in_chunks=%d' % min(len(chunks), 4), 'kinds:' + '+'.join(sorted({s[1] for s in case['chunks']})) if chunks else 'empty-list']
    if any(len(p) == 0 for p in parts):
        labels.append('empty-compressed-chunk')
    if parts and len(parts[-1]) == 0:
        labels.append('empty-chunk-after-eos')
    if len(original) > 131072:
        labels.append('>128K')
    if len(comp) > 524288:
        labels.append('compressed>512K')
    return {'nontrivial': len(chunks) >= 2 and len([p for p in parts]) >= 3, 'labels': labels}


def check_truncate(case):
    INPUT[0] = 'bytes'
    codec = case['codec']
    chunks = [make_chunk(s) for s in case['chunks']]
    ctx = {'codec': codec, 'chunks': case['chunks']}
    original = b''.join(chunks)
    comp_chunks = compress(codec, chunks, ctx)
    comp = b''.join(comp_chunks)
    if len(comp) <= 2048:
        points = range(len(comp))
    elif len(comp) <= 200000:
        points = sorted(set(list(range(0, 64)) + list(range(len(comp) - 64, len(comp))) + list(range(0, len(comp), 97))))
    else:
        # big streams: the boundaries of the emitted compressed items (where a writer that died had flushed last) and their
        # neighbours, the two ends, and a sparse sweep
        ends, q = [], 0
        for c in comp_chunks:
            q += len(c)
            ends += [q - 1, q, q + 1]
        points = sorted(set(t for t in ends + list(range(0, 16)) + list(range(len(comp) - 16, len(comp))) + list(range(0, len(comp), 50021))
                            if 0 <= t < len(comp)))
        if len(points) > 400:
            points = points[::len(points) // 400 + 1] + points[-20:]
    for t in points:
        pre = comp[:t]
        for parts in ([pre], [pre[:t // 2], pre[t // 2:]], [pre[i:i + 1] for i in range(t)] if t <= 300 else [pre[:1], pre[1:]]):
            r = drive.collect(rx.from_(parts).pipe(CODECS[codec].decompress()))
            if r.raised is not None:
                raise Violation('exception escaped decompress on a truncated stream', cut=t, **ctx)
            if r.completed:
                raise Violation('%s decompress completed on a stream truncated at byte %d of %d' % (codec, t, len(comp)), cut=t, **ctx)
            if r.error is None:
                raise Violation('%s decompress neither failed nor completed on a truncated stream' % codec, cut=t, **ctx)
            got = b''.join(r.items)
            if original[:len(got)] != got:
                raise Violation('%s decompress emitted bytes that are not a prefix of the original before failing' % codec, cut=t, **ctx)
    return {'nontrivial': len(comp) >= 32, 'labels': [codec, 'points=%d' % (len(points) // 100 * 100)] + (['input>=1MiB'] if len(original) >= 2 ** 20 else [])}


@st.composite
def conc_case(draw):
    n = draw(st.integers(2, 3))
    streams = [[[draw(st.sampled_from([0, 1, 30, 400, 3000])), draw(st.sampled_from(KINDS)), draw(st.integers(0, 999))]
                for _ in range(draw(st.integers(0, 3)))] for _ in range(n)]
    return {'codec': draw(st.sampled_from(['gzip', 'zstd'])), 'streams': streams,
            'cuts': [sorted(draw(st.lists(st.integers(0, 1000000), max_size=5))) for _ in range(n)],
            'sched': draw(st.lists(st.integers(0, 5), max_size=40)), 'shared_op': draw(st.booleans())}


def check_concurrent(case):
    """Several compress / decompress subscriptions alive at once with interleaved chunk delivery: each stream round-trips."""
    codec = case['codec']
    ctx = dict(case)
    originals = [[make_chunk(s) for s in specs] for specs in case['streams']]
    cop, dop = CODECS[codec].compress(), CODECS[codec].decompress()
    rc = drive.interleaved(originals, (lambda k: cop) if case['shared_op'] else (lambda k: CODECS[codec].compress()), case['sched'])
    comps = []
    for k, r in enumerate(rc):
        H.require_clean(r, '%s compress, stream %d of %d concurrent ones' % (codec, k, len(rc)), **ctx)
        comp = b''.join(r.items)
        try:
            if reference_decompress(codec, comp) != b''.join(originals[k]):
                raise Violation('stream %d compressed concurrently with others decompresses to other data' % k, **ctx)
        except Violation:
            raise
        except Exception as e:
            raise Violation('stream %d compressed concurrently with others is not a valid %s file: %r' % (k, codec, e), **ctx)
        comps.append(rechunk(comp, case['cuts'][k]))
    rd = drive.interleaved(comps, (lambda k: dop) if case['shared_op'] else (lambda k: CODECS[codec].decompress()), list(reversed(case['sched'])))
    for k, r in enumerate(rd):
        H.require_clean(r, '%s decompress, stream %d of %d concurrent ones' % (codec, k, len(rd)), **ctx)
        if b''.join(r.items) != b''.join(originals[k]):
            raise Violation('stream %d decompressed concurrently with others differs from its input' % k, **ctx)
    for n, r in enumerate(drive.two_subscribers(comps[0], CODECS[codec].decompress())):
        H.require_clean(r, 'subscriber %d of one piped decompress observable' % n, **ctx)
        if b''.join(r.items) != b''.join(originals[0]):
            raise Violation('subscriber %d of one piped decompress observable differs from the input' % n, **ctx)
    for n, r in enumerate(drive.two_subscribers(originals[0], CODECS[codec].compress())):
        H.require_clean(r, 'subscriber %d of one piped compress observable' % n, **ctx)
        if reference_decompress(codec, b''.join(r.items)) != b''.join(originals[0]):
            raise Violation('subscriber %d of one piped compress observable produced another stream' % n, **ctx)
    nonempty = sum(1 for o in originals if b''.join(o))
    return {'nontrivial': nonempty >= 2 and len(case['sched']) >= 4, 'labels': [codec, 'streams=%d' % len(originals), 'shared-op' if case['shared_op'] else 'own-op']}


@st.composite
def chunk_specs(draw, big):
    n = draw(st.sampled_from([0, 1, 2, 3, 5]))
    sizes = st.sampled_from([0, 1, 7, 100, 1000, 5000, 4096] + ([70000, 140000, 300000, 65536, 65536, 131072, 32768, 262144] if big else []))
    return [[draw(sizes), draw(st.sampled_from(KINDS)), draw(st.integers(0, 999))] for _ in range(n)]


@st.composite
def rt_case(draw):
    big = draw(st.integers(0, 5)) == 0
    cuts = draw(st.lists(st.one_of(st.integers(0, 1000000), st.just(1000000), st.just(0)), max_size=8))
    chunks = draw(chunk_specs(big))
    if big and draw(st.integers(0, 3)) == 0:
        # streams whose COMPRESSED size passes half a megabyte / a megabyte (incompressible input of that size)
        chunks = chunks[:2] + [[draw(st.sampled_from([300000, 524288, 600000, 1200000])), 'rand', draw(st.integers(0, 999))] for _ in range(draw(st.integers(2, 3)))]
    if big and draw(st.integers(0, 5)) == 0:
        chunks = [[262144, 'zero', 0]] * draw(st.integers(3, 5))      # identical pages: the compressor emits identical items in a row
    if big and draw(st.integers(0, 5)) == 0:
        chunks = chunks[:2] + [[5000000, 'zero', 0]]      # a few KB of compressed bytes that expand to 5 MB
    return {'codec': draw(st.sampled_from(['gzip', 'zstd'])), 'chunks': chunks, 'cuts': sorted(cuts),
            'input': draw(st.sampled_from(['bytes', 'bytes', 'bytearray', 'memoryview', 'nested', 'subclass']))}


@st.composite
def trunc_case(draw):
    n = draw(st.sampled_from([0, 1, 2, 3]))
    chunks = [[draw(st.sampled_from([0, 1, 30, 200, 900])), draw(st.sampled_from(KINDS)), draw(st.integers(0, 999))] for _ in range(n)]
    if draw(st.integers(0, 11)) == 0:
        # more than a megabyte of input in several items (compressors that checkpoint / flush on a byte budget)
        chunks = [[draw(st.sampled_from([300000, 400000, 600000])), draw(st.sampled_from(['rand', 'text', 'mixed'])), draw(st.integers(0, 999))] for _ in range(draw(st.integers(3, 5)))]
    return {'codec': draw(st.sampled_from(['gzip', 'zstd'])), 'chunks': chunks}


def subs(tier):
    return [
        Sub('roundtrip', check_roundtrip, gen=rt_case, examples={'quick': 2500, 'thorough': 60000},
            doc='compress -> re-chunk (as emitted / generated cuts / byte by byte + trailing empty chunk) -> decompress; reference decoders'),
        Sub('truncate', check_truncate, gen=trunc_case, examples={'quick': 150, 'thorough': 4000},
            doc='every proper prefix of the compressed stream makes decompress fail without completing'),
        Sub('concurrent', check_concurrent, gen=conc_case, examples={'quick': 500, 'thorough': 30000},
            doc='2-3 compress / decompress subscriptions alive at once (own or shared operator objects), chunks delivered interleaved'),
    ] + ([] if tier != 'thorough' else [
        Sub('fuzz', check_roundtrip, fuzz='c16', fuzz_runs={'thorough': 480000},
            doc='atheris/libFuzzer campaign: codec, chunk specs and re-chunking decoded from the fuzzer bytes, same round-trip oracle'),
    ])
