"""C14 — the memory state store behaves as an isolated per-index typed map."""
import hypothesis
from hypothesis import strategies as st
from hypothesis.stateful import RuleBasedStateMachine, rule, invariant, precondition, initialize

import rxsci as rs
from rxsci.state.memory_store import MemoryStore
from rxsci.state.store import StoreManager
from rxsci.state.state_topology import StateTopology

from vf.core import Sub, Violation, Reject, jsonable

PID = 'C14'
LEVEL = 'exploration'
RULE = ("Hypothesis rule-based state machines (50 steps) drive a MemoryStore directly and a StoreManager with a three-state topology "
        "(typed state, obj state, mapper) with add_key / set / get / is_set / del_key / iterate and add_map / get_map / iterate_map / "
        "flush (iterate_map + del_map + del_key, the sequence group_by uses) over indices {0,1,2,3,7,31} in any order (sparse, "
        "descending, re-added after delete or without delete as split does), for data types int, 'uint', float, bool, obj, mapper with "
        "and without default, values including the extremes of the typed arrays. Oracle: a dict model; after EVERY step all live "
        "indices of all states are re-read and iterate() is compared, so an operation on one index can not change another's. "
        "Non-trivial: the history re-adds a deleted index, has >= 2 live indices at some point and adds a lower index after a higher one.")
ASSUMPTIONS = [
    'only the calls the operators make are generated: reads and writes go to indices that are currently added',
    'del_map is only used inside the flush sequence of group_by (iterate_map, del_map each key, del_key)',
    'values have the declared type of the state',
]

NOTSET = rs.state.markers.STATE_NOTSET
INDICES = [0, 1, 2, 3, 7, 31]
import enum
import numpy


class Color(enum.IntEnum):
    R = 0
    G = 1
    B = 2


# name -> (declared data type, values written, defaults).  Values that are not instances of the declared type but convert to
# it (True into an int state, 3 into a float state, 4 into a bool state -- e.g. an accumulator `acc or flags`) are legal
# writes: the statement says they read back "with the declared type" (COERCE).  A declared type that is none of the typed
# ones -- also a subclass of int / float such as an IntEnum or numpy.float64, which scan declares with type(seed) -- is an
# object state: it reads back the very value written.
TYPES = {
    'int': (int, [0, 1, -1, 5, 2 ** 63 - 1, -2 ** 63, 123456789, True], [None, 5, -1, 0]),
    'uint': ('uint', [0, 1, 7, 2 ** 64 - 1, 2 ** 32], [None, 0, 3]),
    'float': (float, [0.0, -0.0, 1.5, -2.25, 1e308, 5e-324, float('inf'), 3, -7], [None, 1.5, 0.0]),
    'bool': (bool, [True, False, 0, 1, 2, 4, 255], [None, False, True]),
    'obj': ('obj', [None, 0, 'x', (1, 2), 3.5, False, ''], [None, 'dflt', 0, str]),     # also a default that is itself a callable object
    'enum': (Color, [Color.R, Color.G, Color.B], [None, Color.B]),
    'npfloat': (numpy.float64, [numpy.float64(1.5), numpy.float64(-0.0), numpy.float64(3.0)], [None, numpy.float64(2.5)]),
    'str': (str, ['', 'a', 'xyz'], [None, 'd']),
    'settype': (set, [{1}, set(), {1, 2}], [None]),        # declared with the builtin set TYPE (what scan(seed={0}) declares)
}
COERCE = {'int': int, 'uint': int, 'float': float, 'bool': bool}
MAPKEYS = [0, 1, 'a', (1, 2), None, 2.0, 10 ** 20]


class Sim(object):
    """Applies operations to the real store(s) and to the dict model; raises Violation on disagreement.
    ops are JSON lists: ['add', state, idx, parent] ['set', state, idx, vi] ['get', state, idx] ['del', state, idx]
    ['iter', state] ['add_map', idx, ki] ['get_map', idx, ki] ['iter_map', idx] ['flush', idx]."""

    def __init__(self, config):
        self.config = config
        tname, dflt_i, via = config['type'], config['default'], config['via']
        self.dtype, self.values, dflts = TYPES[tname]
        self.default = dflts[dflt_i]
        self.via = via
        if via == 'store':
            self.stores = {
                'T': MemoryStore(name='t', data_type=self.dtype, default_value=self.default),
                'O': MemoryStore(name='o', data_type='obj'),
                'M': MemoryStore(name='m', data_type='mapper'),
            }
        else:
            topo = StateTopology()
            self.ids = {'T': topo.create_state('t', self.dtype, self.default), 'O': topo.create_state('o', 'obj'),
                        'M': topo.create_mapper('m')}
            self.mgr = StoreManager(store_factory=MemoryStore)
            self.mgr.set_topology(topo)
        self.model = {'T': {}, 'O': {}, 'M': {}}      # state -> idx -> {'key', 'set', 'value'} / mapper: {'key', 'map': [(k, index)]}
        self.in_use = set()
        self.handed = []
        self.steps = []
        self.flags = set()
        self.max_added = {'T': -1, 'O': -1, 'M': -1}

    # ---- plumbing to the real thing
    def _call(self, state, name, *args):
        try:
            r = self._call0(state, name, *args)
            if name in ('iterate', 'iterate_map'):
                r = list(r)
            return r
        except Violation:
            raise
        except Exception as e:       # a legal call on an added slot must not raise
            self.bad('%s(%s) raised %r' % (name, ', '.join(repr(a) for a in args), e))

    def _call0(self, state, name, *args):
        if self.via == 'store':
            return getattr(self.stores[state], name)(*args)
        sid = self.ids[state]
        m = {'add_key': self.mgr.add_key, 'del_key': self.mgr.del_key, 'set': self.mgr.set_state, 'get': self.mgr.get_state,
             'iterate': self.mgr.iterate_state, 'add_map': self.mgr.add_map, 'get_map': self.mgr.get_map,
             'del_map': self.mgr.del_map, 'iterate_map': self.mgr.iterate_map}[name]
        return m(sid, *args)

    def bad(self, msg, **kw):
        v = Violation(msg, **kw)
        v.case = {'config': self.config, 'steps': list(self.steps)}
        raise v

    def _values_of(self, state):
        return self.values if state == 'T' else TYPES['obj'][1]

    def _default_of(self, state):
        return self.default if state == 'T' else None

    def step(self, op):
        self.steps.append(op)
        k = op[0]
        if k == 'add':
            _, state, idx, parent = op
            key = (idx, (parent,))
            was = self.model[state].get(idx)
            if was is None and idx in self.model[state].get('_deleted', set()):
                self.flags.add('readd-after-del')
            if idx < self.max_added[state]:
                self.flags.add('descending-add')
            self.max_added[state] = max(self.max_added[state], idx)
            self._call(state, 'add_key', key)
            if state == 'M':
                # re-adding a mapper index drops its map: the indices it handed out are no longer in use
                if was is not None:
                    for _, i in was['map']:
                        self.in_use.discard(i)
                self.model[state][idx] = {'key': key, 'map': []}
            else:
                d = self._default_of(state)
                self.model[state][idx] = {'key': key, 'set': d is not None, 'value': d}
        elif k == 'set':
            _, state, idx, vi = op
            v = self._values_of(state)[vi % len(self._values_of(state))]
            e = self.model[state][idx]
            self._call(state, 'set', e['key'], v)
            e['set'] = True
            e['value'] = COERCE.get(self.config['type'], lambda x: x)(v) if state == 'T' else v
            if state == 'T' and type(e['value']) is not type(v):
                self.flags.add('coerced-write')
        elif k == 'get':
            _, state, idx = op
            self.read(state, idx)
        elif k == 'del':
            _, state, idx = op
            e = self.model[state].pop(idx)
            self._call(state, 'del_key', e['key'])
            self.model[state].setdefault('_deleted', set()).add(idx)
        elif k == 'iter':
            self.check_iter(op[1])
        elif k == 'add_map':
            _, idx, ki = op
            e = self.model['M'][idx]
            mk = MAPKEYS[ki % len(MAPKEYS)]
            if any(a == mk for a, _ in e['map']):
                return
            index = self._call('M', 'add_map', e['key'], mk)
            if not isinstance(index, int) or index < 0:
                self.bad('add_map returned %r' % (index,))
            if index in self.in_use:
                self.bad('add_map handed out index %d which is still in use' % index, in_use=sorted(self.in_use))
            self.in_use.add(index)
            e['map'].append((mk, index))
        elif k == 'get_map':
            _, idx, ki = op
            e = self.model['M'][idx]
            mk = MAPKEYS[ki % len(MAPKEYS)]
            got = self._call('M', 'get_map', e['key'], mk)
            exp = [i for a, i in e['map'] if a == mk]
            if exp:
                if got != exp[0]:
                    self.bad('get_map(%r) returned %r, add_map had returned %r' % (mk, got, exp[0]))
            elif got is not NOTSET:
                self.bad('get_map(%r) of an unmapped key returned %r' % (mk, got))
        elif k == 'iter_map':
            self.check_iter_map(op[1])
        elif k == 'flush':
            idx = op[1]
            e = self.model['M'][idx]
            ks = list(self._call('M', 'iterate_map', e['key']))
            if ks != [a for a, _ in e['map']]:
                self.bad('iterate_map enumerates %r, mapped keys are %r' % (ks, [a for a, _ in e['map']]))
            for mk in ks:
                i = self._call('M', 'get_map', e['key'], mk)
                self._call('M', 'del_map', e['key'], mk)
                self.in_use.discard(i)
            self._call('M', 'del_key', e['key'])
            self.model['M'].pop(idx)
            self.model['M'].setdefault('_deleted', set()).add(idx)
        self.check_all()

    # ---- reads
    def read(self, state, idx):
        e = self.model[state][idx]
        got = self._call(state, 'get', e['key'])
        if state == 'M':
            if not isinstance(got, dict):
                self.bad('mapper slot %d reads %r' % (idx, got))
            return
        if not e['set']:
            if got is not NOTSET:
                self.bad('%s slot %d was never written since it was added but reads %r' % (state, idx, got), model=jsonable(e))
            return
        v = e['value']
        if got is NOTSET:
            self.bad('%s slot %d was written %r but reads NOTSET' % (state, idx, v))
        objstate = state == 'O' or self.config['type'] not in COERCE
        same = (got == v) and (type(got) is type(v) or state == 'O')
        if isinstance(v, float) and isinstance(got, float) and v == 0.0:
            import math
            same = same and math.copysign(1, v) == math.copysign(1, got)
        if objstate and got is not v and not (got == v and type(got) is type(v)):
            same = False
        if not same:
            self.bad('%s slot %d reads %r (%s), last written %r (%s)' % (state, idx, got, type(got).__name__, v, type(v).__name__))
        if self.via == 'store' and state != 'M':
            st_ = self.stores[state]
            if st_.is_set(e['key']) is not True:
                self.bad('is_set is not True for a written slot %d' % idx)

    def check_iter(self, state):
        got = list(self._call(state, 'iterate'))
        live = sorted(i for i in self.model[state] if i != '_deleted')
        if [g[0] for g in got] != [self.model[state][i]['key'] for i in live]:
            self.bad('iterate() of %s yields keys %r, live keys are %r' % (state, [g[0] for g in got], [self.model[state][i]['key'] for i in live]))
        if state != 'M':
            for g, i in zip(got, live):
                e = self.model[state][i]
                if bool(g[2]) != e['set']:
                    self.bad('iterate() reports is_set=%r for slot %d, model %r' % (g[2], i, e['set']))
                gv = g[1]
                if state == 'T' and self.config['type'] == 'bool':
                    gv = bool(gv)       # iterate() hands out the stored byte of a bool state (1 for True); get() is what converts
                if e['set'] and not (gv == e['value']):
                    self.bad('iterate() reports value %r for slot %d, last written %r' % (g[1], i, e['value']))

    def check_iter_map(self, idx):
        e = self.model['M'][idx]
        ks = list(self._call('M', 'iterate_map', e['key']))
        if ks != [a for a, _ in e['map']]:
            self.bad('iterate_map enumerates %r, mapped keys (insertion order) are %r' % (ks, [a for a, _ in e['map']]))
        for mk, i in e['map']:
            if self._call('M', 'get_map', e['key'], mk) != i:
                self.bad('get_map(%r) changed' % (mk,))

    def check_all(self):
        nlive = 0
        for state in ('T', 'O', 'M'):
            for idx in list(self.model[state]):
                if idx == '_deleted':
                    continue
                nlive += 1
                self.read(state, idx)
                if state == 'M':
                    self.check_iter_map(idx)
            self.check_iter(state)
        if max(len([i for i in self.model[s] if i != '_deleted']) for s in ('T', 'O', 'M')) >= 2:
            self.flags.add('two-live')

    def info(self):
        nt = {'readd-after-del', 'two-live', 'descending-add'} <= self.flags
        return {'nontrivial': nt, 'labels': sorted(self.flags) + ['type:' + self.config['type'], 'default:%s' % self.config['default'],
                                                              'via:' + self.config['via'], 'steps>=20' if len(self.steps) >= 20 else 'steps<20']}


def replay(case):
    sim = Sim(case['config'])
    for op in case['steps']:
        sim.step(op)
    return sim.info()


def machine(record, focus=None):
    add_states = ['M'] if focus == 'mapper' else ['T', 'T', 'O', 'M']
    add_indices = [0, 1, 2, 7] if focus == 'mapper' else INDICES

    class StoreMachine(RuleBasedStateMachine):
        def __init__(self):
            super().__init__()
            self.sim = None

        @initialize(t=st.sampled_from(sorted(TYPES)), d=st.integers(0, 3), via=st.sampled_from(['store', 'manager']))
        def init(self, t, d, via):
            self.sim = Sim({'type': t, 'default': d % len(TYPES[t][2]), 'via': via})

        def live(self, state):
            return sorted(i for i in self.sim.model[state] if i != '_deleted')

        @precondition(lambda self: self.sim is not None and (focus != 'mapper' or len(self.live('M')) < 3))
        @rule(state=st.sampled_from(add_states), idx=st.sampled_from(add_indices), parent=st.integers(0, 2))
        def add(self, state, idx, parent):
            if focus == 'mapper' and idx in self.live('M'):
                return          # keep the maps alive: allocation interleaves between several live maps
            self.sim.step(['add', state, idx, parent])

        @precondition(lambda self: self.sim and (self.live('T') or self.live('O')))
        @rule(state=st.sampled_from(['T', 'O']), n=st.integers(0, 5), vi=st.integers(0, 8))
        def set(self, state, n, vi):
            live = self.live(state) or self.live('T' if state == 'O' else 'O')
            state = state if self.live(state) else ('T' if state == 'O' else 'O')
            self.sim.step(['set', state, live[n % len(live)], vi])

        @precondition(lambda self: self.sim and (self.live('T') or self.live('O')))
        @rule(state=st.sampled_from(['T', 'O']), n=st.integers(0, 5))
        def delete(self, state, n):
            state = state if self.live(state) else ('T' if state == 'O' else 'O')
            live = self.live(state)
            self.sim.step(['del', state, live[n % len(live)]])

        @precondition(lambda self: self.sim and self.live('M'))
        @rule(n=st.integers(0, 5), ki=st.integers(0, 6))
        def add_map(self, n, ki):
            live = self.live('M')
            self.sim.step(['add_map', live[n % len(live)], ki])

        @precondition(lambda self: self.sim and self.live('M'))
        @rule(n=st.integers(0, 5), ki=st.integers(0, 6))
        def get_map(self, n, ki):
            live = self.live('M')
            self.sim.step(['get_map', live[n % len(live)], ki])

        @precondition(lambda self: self.sim and self.live('M'))
        @rule(n=st.integers(0, 5))
        def flush(self, n):
            live = self.live('M')
            self.sim.step(['flush', live[n % len(live)]])

        def teardown(self):
            if self.sim is not None and self.sim.steps:
                record({'config': self.sim.config, 'steps': self.sim.steps}, self.sim.info())

    return StoreMachine


def long_enum(tier):
    for t in ('int', 'obj', 'float'):
        for via in ('store', 'manager'):
            steps = []
            n = 1300
            for i in range(n):
                steps.append(['add', 'T', i, 0])
                steps.append(['set', 'T', i, i % 5])
            for i in range(1100):
                steps.append(['del', 'T', i])
            for i in (5, 1030, 0, 700):
                steps.append(['add', 'T', i, 1])
                steps.append(['set', 'T', i, (i + 1) % 5])
            steps.append(['get', 'T', 1250])
            yield {'config': {'type': t, 'default': 0, 'via': via}, 'steps': steps, 'sparse_checks': True}
    # key indices far beyond the end of the arrays (operators derive indices from their parent's: index * density + offset): the
    # slot of the new key is a fresh slot like any other (declared default, empty group map), the skipped ones stay unused
    for t in sorted(TYPES):
        for d in range(len(TYPES[t][2])):
            for via in ('store', 'manager'):
                steps = []
                for i in (2000, 1999, 4100, 5124, 5125, 6150, 7175, 3):
                    steps += [['add', 'T', i, 0], ['get', 'T', i], ['add', 'O', i, 0], ['add', 'M', i, 1], ['add_map', i, i % 5],
                              ['get_map', i, i % 5], ['set', 'T', i, i % 4], ['get', 'T', 2000]]
                steps += [['del', 'T', 4100], ['add', 'T', 4100, 1], ['get', 'T', 4100], ['flush', 5125]]
                yield {'config': {'type': t, 'default': d, 'via': via}, 'steps': steps, 'sparse_checks': True, 'far': True}


def replay_long(case):
    """as replay(), but the all-slots re-read after every step (quadratic) is done every 100 steps only"""
    sim = Sim(case['config'])
    full = sim.check_all
    for n, op in enumerate(case['steps']):
        sim.check_all = full if (n % 100 == 0 or n >= len(case['steps']) - 12) else (lambda: None)
        sim.step(op)
    sim.check_all = full
    sim.check_all()
    return {'nontrivial': True, 'labels': ['far-indices' if case.get('far') else 'long-history', 'type:' + case['config']['type'], 'via:' + case['config']['via']]}


def subs(tier):
    return [
        Sub('long', replay_long, enum=long_enum,
            doc='a long history: 1300 keys, the 1100 lowest deleted in order, low indices re-added while newer keys are alive'),
        Sub('mapper', replay, machine=lambda record: machine(record, 'mapper'), examples={'quick': 500, 'thorough': 30000}, steps=40,
            doc='histories concentrated on group-index maps: several live maps with interleaved add_map / get_map / flush'),
        Sub('machine', replay, machine=machine, examples={'quick': 1500, 'thorough': 60000}, steps=50,
            doc='rule-based histories on MemoryStore / StoreManager vs dict model; all live slots re-read after every step'),
    ]
