"""C18 — CSV dump/load round-trips typed rows."""
import math
import os
import shutil
import tempfile

from hypothesis import strategies as st
import rx
import rxsci.container.csv as csv
import rxsci.framing.line as line

from vf.core import Sub, Violation, Reject
from vf import drive, harness as H

PID = 'C18'
LEVEL = 'exploration'
RULE = ("Rows of 1..8 typed columns (int of any size, float = any finite double printed by str(), bool, str over an alphabet weighted "
        "towards the separator, the double quote, the escape character, blanks and letters at every position incl. first/last, empty "
        "strings) are written with csv.dump(header=True, separator, escapechar) and read back through line.unframe + csv.load with the "
        "matching create_line_parser; separators ',', ';', '|', tab, '::'; escape characters backslash and '~'. Every field must come back "
        "equal: ints ==, floats == and same sign bit, bools, strings ==, same row count and order, no error. Sub 'files' does the same "
        "through dump_to_file / load_from_file (utf-8) with enough rows to cross the 64 KiB read chunk. Non-trivial: a string "
        "containing the separator AND (a string containing a quote or escape character, or a negative / fractional float).")
ASSUMPTIONS = [
    'strings contain no newline; through text-mode files also no carriage return (universal newlines)',
    'dump and load use the same separator, escape character, schema and header=True; files are written and read as utf-8',
]

SEPS = [',', ';', '|', '\t', '::']
ESCS = ['\\', '~']
TYPES = ['int', 'float', 'bool', 'str']


def str_strategy(sep, esc, files):
    special = [sep, sep[0], '"', esc, ' ', '\\', '~', "'", ':', ',']
    if not files:
        special.append('\r')
    alpha = st.one_of(st.sampled_from(special), st.sampled_from(special), st.sampled_from(list('abcxyz012 ')),
                      st.characters(blacklist_characters='\n\r', blacklist_categories=('Cs',)))
    return st.lists(alpha, max_size=8).map(''.join)


FLOATS = st.one_of(
    st.floats(allow_nan=False, allow_infinity=False),
    st.floats(min_value=-1000, max_value=1000, allow_nan=False).map(lambda x: round(x, 3)),
    st.sampled_from([0.0, -0.0, -0.5, -1.5, 5.56, 1e22, 1e-7, 123456789.123456789, -2.675, 0.1, 1e16, 5e-324, 1.7976931348623157e308]),
)
INTS = st.one_of(st.integers(-1000, 1000), st.integers(), st.sampled_from([0, -1, 2 ** 63, -2 ** 64, 10 ** 30, -(2 ** 53) - 1, -9007199254740993, -(10 ** 18) - 7, 2 ** 53 + 1, -(2 ** 63) - 1]))


@st.composite
def case_gen(draw, files=False):
    sep = draw(st.sampled_from(SEPS))
    esc = draw(st.sampled_from(ESCS))
    ncol = draw(st.integers(1, 8))
    types = [draw(st.sampled_from(TYPES + ['str'])) for _ in range(ncol)]
    strs = str_strategy(sep, esc, files)
    field = {'int': INTS, 'float': FLOATS, 'bool': st.booleans(), 'str': strs}
    nrows = draw(st.integers(1, 5))
    rows = [[draw(field[t]) for t in types] for _ in range(nrows)]
    scols = [c for c, t in enumerate(types) if t == 'str']
    if scols and draw(st.integers(0, 3)) == 0:
        # the escape character in front of ordinary letters (a Windows path, a regular expression): 'C:<esc>new<esc>table'
        rows[draw(st.integers(0, nrows - 1))][draw(st.sampled_from(scols))] = 'C:' + esc + 'new' + esc + 'table' + esc + 'r' + esc
    others = [c for c, t in enumerate(types) if t != 'str']
    if scols and others and draw(st.integers(0, 3)) == 0:
        # a text cell that reads exactly like the cell of another type next to it (an identifier / a flag kept as text)
        r_ = draw(st.integers(0, nrows - 1))
        rows[r_][draw(st.sampled_from(scols))] = str(rows[r_][draw(st.sampled_from(others))])
    case = {'sep': sep, 'esc': esc, 'types': types, 'rows': rows, 'tagged': draw(st.integers(0, 3)) == 0}
    if files:
        case['repeat'] = draw(st.sampled_from([1, 50, 3000]))
        case['longfield'] = draw(st.sampled_from([0, 0, 70000, 140000]))
        case['fmode'] = draw(st.sampled_from(['plain', 'rewrite', 'inside']))
    return case


PYT = {'int': int, 'float': float, 'bool': bool, 'str': str}


class Tag(str):
    """a string carrying a marker type (what str-based enums and many libraries hand out): it IS a str with the same characters"""


def tagged(case, r, n):
    """the row as written: with case['tagged'] the text cells of every other row are instances of a str subclass"""
    if not case.get('tagged') or n % 2:
        return r
    return [Tag(v) if type(v) is str else v for v in r]


def same_field(t, a, b):
    if t == 'float':
        return isinstance(b, float) and a == b and math.copysign(1.0, a) == math.copysign(1.0, b)
    if t == 'bool':
        return b is a
    return type(a) is type(b) and a == b


def compare(case, rows, got, ctx):
    if len(got) != len(rows):
        raise Violation('%d rows read back, %d written' % (len(got), len(rows)), first_got=[tuple(g) for g in got[:3]], **ctx)
    for n, (r, g) in enumerate(zip(rows, got)):
        g = tuple(g)
        if len(g) != len(r):
            raise Violation('row %d has %d fields, expected %d' % (n, len(g), len(r)), row=r, got=list(g), **ctx)
        for c, (t, a, b) in enumerate(zip(case['types'], r, g)):
            if not same_field(t, a, b):
                raise Violation('row %d column %d (%s): wrote %r, read %r' % (n, c, t, a, b), row=r, got=list(g), **ctx)


def info(case):
    sep, esc = case['sep'], case['esc']
    strs = [f for r in case['rows'] for t, f in zip(case['types'], r) if t == 'str']
    flts = [f for r in case['rows'] for t, f in zip(case['types'], r) if t == 'float']
    has_sep = any(sep in s for s in strs)
    has_q = any('"' in s or esc in s for s in strs)
    negf = any(f < 0 or f != int(f) if abs(f) < 1e15 else False for f in flts)
    labels = ['sep:' + repr(sep), 'esc:' + esc, 'cols=%d' % len(case['types'])]
    if has_sep:
        labels.append('sep-in-string')
    if has_q:
        labels.append('quote-or-escape-in-string')
    if any(s.endswith(esc) for s in strs):
        labels.append('string-ends-with-escape')
    if any(s != s.strip() for s in strs):
        labels.append('blank-edge')
    if '' in strs:
        labels.append('empty-string')
    if negf:
        labels.append('neg-or-fractional-float')
    if any(isinstance(f, float) and f == 0 and math.copysign(1, f) < 0 for f in flts):
        labels.append('minus-zero')
    return {'nontrivial': has_sep and (has_q or negf), 'labels': labels}


def schema(case):
    return [('c%d' % i, PYT[t]) for i, t in enumerate(case['types'])]


def check_memory(case):
    ctx = dict(case)
    dtype = schema(case)
    Item, _, _ = csv.create_schema_factory(dtype)
    rows = [Item(*tagged(case, r, n)) for n, r in enumerate(case['rows'])]
    parser = csv.create_line_parser(dtype=dtype, separator=case['sep'], escapechar=case['esc'])
    r = drive.collect(rx.from_(rows).pipe(
        csv.dump(header=True, separator=case['sep'], escapechar=case['esc']),
        line.unframe(),
        csv.load(parser),
    ))
    H.require_clean(r, 'csv dump -> load', **ctx)
    compare(case, case['rows'], r.items, ctx)
    # the same parser / load operators serve a second stream: the header is consumed again, the rows parsed the same way
    lines = drive.collect(rx.from_(rows).pipe(csv.dump(header=True, separator=case['sep'], escapechar=case['esc']), line.unframe()))
    loaded = rx.from_(lines.items).pipe(csv.load(parser))
    for n in (1, 2):
        r2 = drive.collect(loaded)
        H.require_clean(r2, 'subscription %d of the same csv.load observable' % n, **ctx)
        compare(case, case['rows'], r2.items, ctx)
    return info(case)


def check_files(case):
    ctx = {k: case[k] for k in ('sep', 'esc', 'types', 'repeat', 'longfield')}
    ctx['rows'] = case['rows']
    # an extra string column of multi-byte characters whose length varies from row to row, so that the 64 KiB read
    # boundaries fall inside characters
    case = dict(case, types=case['types'] + ['str'])
    pad = (chr(0xe9) + chr(0x20ac) + chr(0x1F600)) * 4
    plain_rows = [list(r) + [pad[:3 + (n % 7)]] for n, r in enumerate(list(case['rows']) * case['repeat'])]
    if case.get('longfield'):
        # one field longer than a read chunk (two chunks): its row spans three reads
        k = len(plain_rows) // 2
        plain_rows[k][-1] = ('x' + chr(0xe9) + 'y ') * (case['longfield'] // 4)
    dtype = schema(case)
    Item, _, _ = csv.create_schema_factory(dtype)
    rows = [Item(*tagged(case, r, n)) for n, r in enumerate(plain_rows)]
    d = tempfile.mkdtemp(prefix='rxsci_c18_')
    try:
        f = os.path.join(d, 'x.csv')
        parser = csv.create_line_parser(dtype=dtype, separator=case['sep'], escapechar=case['esc'])
        mode = case.get('fmode', 'plain')
        if mode == 'rewrite':
            # the path already holds an earlier export (other rows, same options): dump_to_file replaces it, header included
            w0 = drive.collect(rx.from_(rows[:3] + rows[:2]).pipe(csv.dump_to_file(f, header=True, separator=case['sep'], escapechar=case['esc'], encoding='utf-8')))
            H.require_clean(w0, 'earlier dump_to_file to the same path', **ctx)
        if mode == 'inside':
            # a live source; the file is read back from INSIDE the completion callback of the dump: completion means written
            from rx.subject import Subject
            src, inside, w = Subject(), [], drive.Result()

            def done():
                w.completed += 1
                inside.append(drive.collect(csv.load_from_file(f, parser, encoding='utf-8')) if os.path.exists(f) else None)
            src.pipe(csv.dump_to_file(f, header=True, separator=case['sep'], escapechar=case['esc'], encoding='utf-8')).subscribe(
                on_next=w.items.append, on_error=lambda e: setattr(w, 'error', e), on_completed=done)
            for row in rows:
                src.on_next(row)
            src.on_completed()
            H.require_clean(w, 'dump_to_file (live source)', **ctx)
            if inside[0] is None:
                raise Violation('csv.dump_to_file signalled completion before the file existed', **ctx)
            H.require_clean(inside[0], 'load_from_file called from the completion callback of dump_to_file', **ctx)
            compare(case, plain_rows, inside[0].items, ctx)
        else:
            w = drive.collect(rx.from_(rows).pipe(csv.dump_to_file(f, header=True, separator=case['sep'], escapechar=case['esc'], encoding='utf-8')))
            H.require_clean(w, 'dump_to_file', **ctx)
        if not os.path.exists(f):
            raise Violation('csv.dump_to_file completed without creating the file', **ctx)
        size = os.path.getsize(f)
        r = drive.collect(csv.load_from_file(f, parser, encoding='utf-8'))
        H.require_clean(r, 'load_from_file', **ctx)
        compare(case, plain_rows, r.items, ctx)
    finally:
        shutil.rmtree(d, ignore_errors=True)
    i = info(case)
    i['labels'].append('file>64K' if size > 65536 else 'file<=64K')
    i['labels'].append('fmode:' + case.get('fmode', 'plain'))
    i['nontrivial'] = i['nontrivial'] or size > 65536
    return i


def subs(tier):
    return [
        Sub('memory', check_memory, gen=case_gen, examples={'quick': 3000, 'thorough': 300000},
            doc='dump -> line.unframe -> load with matching parser, field by field'),
        Sub('files', check_files, gen=lambda: case_gen(files=True), examples={'quick': 60, 'thorough': 1500},
            doc='dump_to_file -> load_from_file (utf-8), files crossing the 64 KiB read chunk'),
    ] + ([] if tier != 'thorough' else [
        Sub('fuzz', check_memory, fuzz='c18', fuzz_runs={'thorough': 960000},
            doc='atheris/libFuzzer campaign on dump -> parse_line (rxsci instrumented: the quoting/merging branches give a coverage gradient)'),
    ])
