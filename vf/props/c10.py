"""C10 — per-key sequence operators match their list semantics."""
import itertools
from hypothesis import strategies as st
import rx
import rxsci as rs

from vf.core import Sub, Violation, Reject
from vf import drive, cmp, harness as H, keys
from vf.props import c02, c03

PID = 'C10'
LEVEL = 'exploration'
RULE = ("Sequences of length 0..12 over {0..4, None, 'a', 'b'} and every parameter value (n = 0, 1, > len, divisors and non-divisors of "
        "len; padding value None / explicit) are run through first, last, take, distinct, distinct_until_changed, lag, pad_start, "
        "pad_end, start_with, batch: as plain observables where the operator supports it, per key under group_by with interleaved "
        "keys, and as raw mux lifetimes on re-used slots; sort (plain) with keys that collide. Oracles are the list definitions written "
        "out directly (batch and sort as validity predicates: chunk sizes / concatenation; permutation, monotone keys, stability). Sub "
        "'enum' enumerates every sequence up to length 4 (thorough: 6) over {0, 1, None} x every operator x every parameter. "
        "Non-trivial: length >= 2 with a repeated value or a None, or len % n == 0 for batch.")
ASSUMPTIONS = [
    'padding operators are specified around a non-empty sequence: on an empty key only "no error, completes, emits nothing" is asserted',
    'first/last on an empty PLAIN observable raise by design (RxPY) and are not generated',
    'sort keys are totally ordered; stability is Python sorted() contract in both directions',
]

PLAIN_OK = {'first', 'last', 'take', 'duc', 'batch'}
# JSON lists are specs of objects built afresh at run time (equal but not identical: vf.keys)
# -1 / -2 and 0 / 2**61-1 are unequal values with EQUAL hashes in CPython
VALUES = [0, 1, 2, 3, 4, None, 'a', 'b', ['big', 0], ['str', 'ab'], ['tuple', 0, 1], -1, -2, 2 ** 61 - 1]
# numeric-only pool with numpy scalars (their comparisons return numpy.bool_, not the bool singletons); kept apart from the
# mixed pool because numpy scalars broadcast against tuples
NUMERIC = [0, 1, 2, -1, -2, 1.0, 2.5, ['np', 1.5], ['np', 2.5], ['np', 1.0], ['np', 2.5]]


# values that are EQUAL across types / signs / representations but are different items: an operator hands on the item it was given
XTYPE = [1, 1.0, True, 0, 0.0, -0.0, False, 7, 7.0, ['dec', '2.5'], ['dec', '2.50'], ['dec', '2.5'],
         2 ** 53 + 1, 9007199254740992.0, 2 ** 53, 1700000000000000001, 1.7e18]      # int / float neighbours that differ exactly, not as doubles


# the int / float neighbours on their own: every adjacent pair in a sequence drawn from this pool is of that kind
NEIGH = [2 ** 53 + 1, 9007199254740992.0, 2 ** 53, 1700000000000000001, 1.7e18, 1700000000000000000]


def strict(a, b):
    """the very same value: same type, same sign of zero, same representation (Decimal('2.5') vs Decimal('2.50'))"""
    if type(a) is not type(b):
        return False
    if isinstance(a, (list, tuple)):
        return len(a) == len(b) and all(strict(x, y) for x, y in zip(a, b))
    if isinstance(a, float):
        import math
        return (a != a and b != b) or (a == b and math.copysign(1, a) == math.copysign(1, b))
    if type(a).__name__ == 'Decimal':
        return str(a) == str(b)
    if isinstance(a, Rec):
        return a.v == b.v
    return a == b


class Rec(object):
    """a record with the usual hand-written __eq__ (reads other's attribute without a type check) and a matching __hash__"""

    def __init__(self, v):
        self.v = v

    def __eq__(self, other):
        return self.v == other.v

    def __ne__(self, other):
        return self.v != other.v

    def __hash__(self):
        return hash(self.v)

    def __repr__(self):
        return 'Rec(%r)' % (self.v,)

    def __deepcopy__(self, memo):
        return self


RECS = [['rec', 0], ['rec', 1], ['rec', 2], ['rec', 1], ['rec', 0]]


def dec(v):
    if isinstance(v, list) and v and v[0] == 'rec':
        return Rec(v[1])
    if isinstance(v, list) and v and v[0] == 'dec':
        import decimal
        return decimal.Decimal(v[1])
    if isinstance(v, list) and v and v[0] == 'np':
        import numpy
        return numpy.float64(v[1])       # comparisons return numpy.bool_, not the bool singletons
    return keys.mk(v) if isinstance(v, list) else v


def all_ops():
    ops = [['first'], ['last'], ['distinct'], ['duc'], ['distinct_km']]
    ops += [['take', n] for n in range(0, 7)]
    ops += [['lag', n] for n in range(0, 5)]
    ops += [['pad_start', n, v] for n in range(0, 4) for v in (None, 9)]
    ops += [['pad_end', n, v] for n in range(0, 4) for v in (None, 9)]
    # an explicit padding VALUE that is itself a sequence, of length n or not (a record, a point): it is one item
    ops += [[k, n, ['seq', kind, m]] for k in ('pad_start', 'pad_end') for n in (1, 2) for kind in ('tuple', 'list') for m in (2, 3)]
    ops += [['start_with', list(v), kind] for v in ((), (7,), (7, 8)) for kind in ('list', 'tuple', 'deque')]
    ops += [['batch', n] for n in range(1, 7)]
    return ops


OPS = all_ops()


def padv(v):
    if isinstance(v, list) and v and v[0] == 'seq':
        return (tuple if v[1] == 'tuple' else list)(range(70, 70 + v[2]))
    return v


def build(op):
    k = op[0]
    if k == 'first':
        return rs.ops.first()
    if k == 'last':
        return rs.ops.last()
    if k == 'take':
        return rs.ops.take(op[1])
    if k == 'distinct':
        return rs.ops.distinct()
    if k == 'distinct_km':
        # records are made on the fly by the stage in front (a parser): they only live while they travel through the pipeline
        class _Row(object):
            __slots__ = ('payload',)

            def __init__(self, payload):
                self.payload = payload
        return rx.pipe(rs.ops.map(_Row), rs.ops.distinct(lambda r: r.payload), rs.ops.map(lambda r: r.payload))
    if k == 'duc':
        return rs.ops.distinct_until_changed()
    if k == 'lag':
        return rs.data.lag(op[1])
    if k == 'pad_start':
        return rs.data.pad_start(op[1], padv(op[2]))
    if k == 'pad_end':
        return rs.data.pad_end(op[1], padv(op[2]))
    if k == 'start_with':
        # the padding is 'some items': a list, a tuple (the documented example) or any other iterable
        kind = op[2] if len(op) > 2 else 'list'
        pad = {'list': list, 'tuple': tuple, 'deque': __import__('collections').deque}[kind](op[1])
        return rs.ops.start_with(pad)
    if k == 'batch':
        return rs.data.batch(op[1])
    raise ValueError(op)


def judge(op, xs, got, ctx):
    """Raises Violation unless `got` is what the list definition of `op` allows for input xs."""
    k = op[0]
    exp = None
    if k == 'first':
        exp = xs[:1]
    elif k == 'last':
        exp = xs[-1:]
    elif k == 'take':
        exp = xs[:op[1]]
    elif k in ('distinct', 'distinct_km'):
        exp = []
        for x in xs:
            if not any(x == e and type(x) is type(e) or (x == e) for e in exp):
                exp.append(x)
    elif k == 'duc':
        exp = [x for i, x in enumerate(xs) if i == 0 or x != xs[i - 1]]
    elif k == 'lag':
        exp = [(xs[max(0, i - op[1])], xs[i]) for i in range(len(xs))]
    elif k == 'pad_start':
        exp = ([padv(op[2]) if op[2] is not None else xs[0]] * op[1] + xs) if xs else []
    elif k == 'pad_end':
        exp = (xs + [padv(op[2]) if op[2] is not None else xs[-1]] * op[1]) if xs else []
    elif k == 'start_with':
        exp = (list(op[1]) + xs) if xs else []
    elif k == 'batch':
        n = op[1]
        flat = [x for c in got for x in (c if isinstance(c, list) else [c])]
        if any(not isinstance(c, list) for c in got):
            raise Violation('batch emitted a non-list', got=got, **ctx)
        if not cmp.same_seq(flat, xs, approx=False):
            raise Violation('concatenation of the batches is not the input', input=xs, got=got, **ctx)
        if any(len(c) != n for c in got[:-1]):
            raise Violation('a batch other than the last does not hold exactly n items', got=got, **ctx)
        if got and not (1 <= len(got[-1]) <= n):
            raise Violation('the last batch is empty or too long', got=got, **ctx)
        if len(got) != -(-len(xs) // n):
            raise Violation('number of batches is not ceil(len/n)', got=got, **ctx)
        return
    if not (len(got) == len(exp) and all(strict(a, b) for a, b in zip(got, exp))):
        raise Violation('%s differs from its list definition' % k, input=xs, expected=exp, got=got, **ctx)


def nontrivial(op, xs):
    if op[0] == 'batch':
        return len(xs) >= 1 and len(xs) % op[1] == 0 or (len(xs) >= 2 and (any(x is None for x in xs) or len(set(map(repr, xs))) < len(xs)))
    return len(xs) >= 2 and (any(x is None for x in xs) or len(set(map(repr, xs))) < len(xs))


# ------------------------------------------------------------------ plain

def check_plain_one(op, xs):
    ctx = {'op': op, 'mode': 'plain'}
    if op[0] in ('first', 'last') and not xs:
        raise Reject()
    the_op = build(op)
    r = drive.plain(xs, [the_op])
    H.require_clean(r, 'plain ' + op[0], input=xs, **ctx)
    judge(op, xs, r.items, dict(ctx))
    # the same operator OBJECT applied to other plain sources afterwards (a new observable each time): after a complete run,
    # and after a run whose subscriber left in the middle
    import rx.operators as rxops
    drive.collect(rx.from_(list(xs)).pipe(the_op, rxops.take(1)))
    ys = xs[1:] + xs[:1]
    if not (op[0] in ('first', 'last') and not ys):
        r2 = drive.plain(ys, [the_op])
        H.require_clean(r2, 'plain %s, operator object applied to a second source' % op[0], input=ys, **ctx)
        judge(op, ys, r2.items, dict(ctx, second_use=True))


def is_hashable(x):
    try:
        hash(x)
        return True
    except TypeError:
        return False


def check_store_one(op, xs):
    ctx = {'op': op, 'mode': 'store'}
    r = drive.store(xs, [build(op)])
    H.require_clean(r, 'with_memory_store ' + op[0], input=xs, **ctx)
    judge(op, xs, r.items, dict(ctx))
    # ONE operator object at two places of one pipeline (dedup, stage, dedup again): each place has a state of its own, as two
    # objects built with the same arguments have
    if op[0] != 'distinct' or all(is_hashable(x) for x in r.items):
        o = build(op)
        two = drive.store(xs, [o, rs.ops.identity(), o])
        ref = drive.store(xs, [build(op), rs.ops.identity(), build(op)])
        if ref.ok:
            H.require_clean(two, 'one %s operator object at two places of a pipeline' % op[0], input=xs, **ctx)
            if not cmp.same_seq(two.items, ref.items, approx=False):
                raise Violation('one %s operator object used at two places of a pipeline differs from two objects' % op[0],
                                input=xs, one_object=two.items, two_objects=ref.items, **ctx)


def big_batch_enum():
    for n in (255, 256, 257, 300):
        for length in (n - 1, n, n + 1, 2 * n, 2 * n + 5):
            yield {'op': ['batch', n], 'xs': [i % 7 for i in range(length)]}


@st.composite
def seq_case(draw):
    # the three operators that COMPARE items are 3 of ~70 parameterisations: every fourth case is one of them
    op = draw(st.sampled_from(OPS)) if draw(st.integers(0, 3)) else draw(st.sampled_from([['duc'], ['distinct'], ['distinct_km'], ['duc']]))
    pool = [VALUES, VALUES, VALUES, NUMERIC, XTYPE, RECS, NEIGH][draw(st.integers(0, 6))]
    xs = draw(st.lists(st.sampled_from(pool), min_size=draw(st.sampled_from([0, 0, 2, 5])), max_size=12))
    return {'op': op, 'xs': xs}


def check_single(case):
    op, xs = case['op'], [dec(v) for v in case['xs']]
    check_store_one(op, xs)
    labels = ['op:' + op[0], 'store']
    if op[0] in PLAIN_OK and not (op[0] in ('first', 'last') and not xs):
        check_plain_one(op, xs)
        labels.append('plain')
    if not xs:
        labels.append('empty')
    if xs and xs[0] is None:
        labels.append('leading-None')
    return {'nontrivial': nontrivial(op, xs), 'labels': labels}


def enum(tier):
    for c in big_batch_enum():
        yield c
    maxlen = 6 if tier == 'thorough' else 4
    for n in range(0, maxlen + 1):
        for xs in itertools.product([0, 1, None], repeat=n):
            for op in OPS:
                yield {'op': op, 'xs': list(xs)}


# ------------------------------------------------------------------ keyed

@st.composite
def keyed_case(draw):
    op = draw(st.sampled_from(OPS))
    if draw(st.booleans()):
        nk = draw(st.integers(1, 4))
        ks = draw(st.lists(st.integers(0, nk - 1), min_size=draw(st.sampled_from([1, 4, 8])), max_size=18))
        vals = draw(st.lists(st.sampled_from([VALUES, VALUES, VALUES, NUMERIC, XTYPE, RECS, NEIGH][draw(st.integers(0, 6))]), min_size=len(ks), max_size=len(ks)))
        return {'op': op, 'driver': 'grouped', 'items': [[k, v] for k, v in zip(ks, vals)]}
    nl = draw(st.integers(1, 6))
    lifetimes = [[draw(st.sampled_from(c02.SLOTS)), draw(st.lists(st.sampled_from(VALUES), max_size=7))] for _ in range(nl)]
    total = sum(len(l[1]) + 2 for l in lifetimes)
    return {'op': op, 'driver': 'raw', 'lifetimes': lifetimes, 'sched': draw(st.lists(st.integers(0, 4), min_size=total, max_size=total))}


def check_keyed(case):
    op = case['op']
    ctx = dict(case)
    head, tail = [], []
    if case['driver'] == 'grouped':
        items = [(k, dec(v)) for k, v in case['items']]
        r = drive.store(items, [rs.ops.group_by(lambda i: i[0], [rs.ops.map(lambda i: i[1]), drive.tap(head), build(op), drive.tap(tail)])])
    else:
        r = drive.rawmux(c03.raw_events(dict(case, lifetimes=[[i, [dec(v) for v in its]] for i, its in case['lifetimes']])),
                         [drive.tap(head), build(op), drive.tap(tail)])
    H.require_clean(r, 'keyed ' + op[0], **ctx)
    pairs = c02.pair_lifetimes(head, tail, ctx)
    nt = False
    for h, t in pairs:
        judge(op, h['items'], t['items'], dict(ctx, key=h['key']))
        nt = nt or nontrivial(op, h['items'])
    slots = {}
    for h, _ in pairs:
        slots[h['key'][0]] = slots.get(h['key'][0], 0) + 1
    labels = ['op:' + op[0], case['driver']]
    if any(v >= 2 for v in slots.values()):
        labels.append('slot-reuse')
    return {'nontrivial': nt and len(pairs) >= 2, 'labels': labels}


# ------------------------------------------------------------------ many keys, most of them open but empty

@st.composite
def many_case(draw):
    return {'op': draw(st.sampled_from(OPS)), 'nk': draw(st.sampled_from([130, 200, 260, 400])), 'seed': draw(st.integers(0, 11)),
            'empty_mod': draw(st.sampled_from([2, 3, 5]))}


def check_many(case):
    """Hundreds of keys alive at once under group_by, a filter in front of the operator leaves many of them open but without
    any item (their state slots are allocated and never written): every key is still judged against its own list definition."""
    op, nk, seed = case['op'], case['nk'], case['seed']
    items = []
    for j in range(3):
        for k in range(nk):
            if j < (k * 7 + seed) % 4:
                items.append((k, (k + j + seed) % 5, (k + seed) % case['empty_mod'] != 0))
    # keys whose items are all rejected by the filter: created by group_by, never fed
    for k in range(nk):
        if not any(i[0] == k for i in items):
            items.append((k, 0, False))
    head, tail = [], []
    r = drive.store(items, [rs.ops.group_by(lambda i: i[0], [rs.ops.filter(lambda i: i[2]), rs.ops.map(lambda i: i[1]), drive.tap(head),
                                                              build(op), drive.tap(tail)])])
    ctx = dict(case)
    H.require_clean(r, 'many keys ' + op[0], **ctx)
    pairs = c02.pair_lifetimes(head, tail, ctx)
    if len(pairs) != nk:
        raise Violation('%d key lifetimes for %d keys' % (len(pairs), nk), **ctx)
    empty = 0
    for h, t in pairs:
        judge(op, h['items'], t['items'], dict(ctx, key=h['key']))
        empty += not h['items']
    return {'nontrivial': empty >= 128, 'labels': ['op:' + op[0], 'keys=%d' % nk, 'empty>=128' if empty >= 128 else 'empty<128']}


# ------------------------------------------------------------------ sort (plain only)

SORT_KEYS = {'id': lambda i: i[0], 'mod3': lambda i: i[0] % 3, 'neg': lambda i: -i[0], 'const': lambda i: 0}


@st.composite
def sort_case(draw):
    ks = draw(st.lists(st.one_of(st.integers(-3, 5), st.integers(-3, 5), st.none()), min_size=draw(st.sampled_from([0, 1, 4])), max_size=12))
    return {'keys': ks, 'key': draw(st.sampled_from(sorted(SORT_KEYS))), 'reverse': draw(st.booleans())}


def check_sort(case):
    # (sort key material, original position); a None key makes the ITEM itself None (a legal item), ordered first by the key function
    items = [None if k is None else (k, n) for n, k in enumerate(case['keys'])]
    kf0 = SORT_KEYS[case['key']]

    def kf(i):
        return -99 if i is None else kf0(i)
    sort_op = rs.data.sort(key=kf, reverse=case['reverse'])
    r = drive.plain(items, [sort_op])
    H.require_clean(r, 'sort', **case)
    r_again = drive.plain(items, [sort_op])          # the same operator object applied to a second source
    H.require_clean(r_again, 'sort (operator object applied to a second source)', **case)
    if r_again.items != r.items:
        raise Violation('sort: the operator object applied to a second source gives another result', first=r.items, second=r_again.items, **case)
    got = r.items
    if sorted([g for g in got if g is not None], key=lambda i: i[1]) != [i for i in items if i is not None] \
            or sum(1 for g in got if g is None) != sum(1 for i in items if i is None):
        raise Violation('sort output is not a permutation of its input', input=items, got=got, **case)
    ks = [kf(i) for i in got]
    for a, b in zip(ks, ks[1:]):
        if (a > b) if not case['reverse'] else (a < b):
            raise Violation('sort output keys are not monotone', got=got, keys=ks, **case)
    for a, b in zip(got, got[1:]):
        if a is not None and b is not None and kf(a) == kf(b) and a[1] > b[1]:
            raise Violation('sort is not stable: equal keys are not in source order', got=got, **case)
    dup = len(set(kf(i) for i in items)) < len(items)
    labels = ['key:' + case['key'], 'reverse' if case['reverse'] else 'ascending'] + (['none-item'] if None in items else [])
    return {'nontrivial': len(items) >= 3 and dup, 'labels': labels}


def subs(tier):
    return [
        Sub('single', check_single, gen=seq_case, examples={'quick': 2500, 'thorough': 200000},
            doc='one sequence through one operator: with_memory_store and (where supported) plain, vs list definition'),
        Sub('keyed', check_keyed, gen=keyed_case, examples={'quick': 1500, 'thorough': 150000},
            doc='per key under group_by with interleaved keys / raw lifetimes on re-used slots, vs list definition per lifetime'),
        Sub('many_keys', check_many, gen=many_case, examples={'quick': 120, 'thorough': 4000},
            doc='130-400 keys alive under group_by, many of them open but empty behind a filter; every key vs its list definition'),
        Sub('sort', check_sort, gen=sort_case, examples={'quick': 800, 'thorough': 50000},
            doc='sort on plain observables: permutation, monotone keys, stability (colliding keys, reverse)'),
        Sub('enum', check_single, enum=enum, doc='every sequence over {0,1,None} up to the bound x every operator x every parameter'),
    ]
