"""C13 — item-level errors on multiplexed streams are isolated and routable."""
import itertools
from hypothesis import strategies as st
import rx
import rxsci as rs

from vf.core import Sub, Violation, Reject
from vf import drive, cmp, harness as H

PID = 'C13'
LEVEL = 'fault_enumeration'
RULE = ("Every item carries a generated 'raises' flag; the user function of map / starmap / filter / scan raises Boom(item id) on flagged "
        "items. Directly behind the failing operator sits ignore, error.map, the error router, or nothing; behind that to_list / a "
        "streaming scan / count / nothing. Drivers: with_memory_store (one key), multiplex (stateless operators) and group_by with "
        "interleaved keys. Oracle: a tap between operator and handler must show exactly one mux error per flagged item, at its "
        "position, for its key; the main output must equal the reference computed from the unflagged items only (error.map: the mapped "
        "item in place); the dead-letter observable must receive exactly the exceptions in source order, complete once, not before the "
        "last dead letter, no error; with no handler the subscriber gets on_error(Boom(first flagged item)), no completion, and a "
        "prefix of the clean output. Sub 'enum' enumerates ALL subsets of failing items for n <= 4 (thorough: 6) x 4 operators x 4 "
        "handlers x {1,2} keys. Non-trivial: a key with both a failing and a succeeding item (and >= 2 keys for the grouped driver).")
ASSUMPTIONS = [
    'the handler is placed directly after the failing operator (as the property states)',
    'Boom exceptions are told apart by the id of the item that raised them',
]


class Boom(Exception):
    def __init__(self, tag):
        super().__init__('boom %r' % (tag,))
        self.tag = tag

    def __deepcopy__(self, memo):
        return self


def norm(v):
    """exceptions that travel as ordinary VALUES (error.map(lambda e: e)) are compared by the item that raised them"""
    if isinstance(v, Exception):
        return ('exc-as-value', tag_of(v))
    if isinstance(v, (list, tuple)):
        return type(v)(norm(x) for x in v) if type(v) in (list, tuple) else v
    return v


OPS = ['map', 'starmap', 'filter', 'scan', 'scan_reduce', 'cmap', 'starmap_te', 'scan_f']
HANDLERS = ['ignore', 'map', 'router', 'none']
TAILS = ['nothing', 'to_list', 'scan', 'count']


class BoomDeep(Boom, RecursionError):
    """what a recursive user function raises on one deeply nested record"""


class BoomAttr(Boom):
    """exceptions with EQUAL type and args that differ in an attribute only (as OSError.filename does)"""

    def __init__(self, tag):
        Exception.__init__(self, 'bad row')
        self.tag = tag


SHARED = {'on': False, 'exc': None, 'cls': None}


def boom(tag):
    """a fresh exception per failing item, or (negative caching, a re-raised stored error) the same instance every time"""
    if SHARED['on']:
        if SHARED['exc'] is None:
            SHARED['exc'] = Boom('shared')
        return SHARED['exc']
    return (SHARED.get('cls') or Boom)(tag)


def failing_op(op):
    # items are (key, value, raises, id)
    if op == 'map':
        def f(i):
            if i[2]:
                raise boom(i[3])
            return i[1] + 100
        return rs.ops.map(f)
    if op == 'starmap':
        def g(k, v, raises, n):
            if raises:
                raise boom(n)
            return v - 100
        return rs.ops.starmap(g)
    if op == 'starmap_te':
        # the user function itself raises a TypeError (a None in a numeric row): it is the mapper's error, on a proper tuple
        def h(k, v, raises, n):
            return (None if raises else v) - 100
        return rs.ops.starmap(h)
    if op == 'filter':
        def p(i):
            if i[2]:
                raise boom(i[3])
            return i[1] % 2 == 0
        return rs.ops.filter(p)

    if op == 'cmap':
        # the user function is a C callable (operator.neg): the exception (a TypeError on None) is raised without any
        # Python frame below the operator's own
        import operator
        return rx.pipe(rs.ops.map(lambda i: None if i[2] else i[1]), rs.ops.map(operator.neg))

    if op == 'scan_f':
        # the seed is given as the factory `int`; the running value becomes a float and grows past 2**63
        def accf(a, i):
            if i[2]:
                raise boom(i[3])
            return (a + i[1] + 0.5) + (2.0 ** 62 if i[1] == 5 else 0)
        return rs.ops.scan(accf, int)

    def acc(a, i):
        if i[2]:
            raise boom(i[3])
        return a + i[1]
    return rs.ops.scan(acc, 0, reduce=(op == 'scan_reduce'))


def tag_of(e):
    return e.tag if isinstance(e, Boom) else 'builtin:%s:%s' % (type(e).__name__, e)


def _message(f):
    try:
        f()
    except TypeError as e:
        return 'builtin:TypeError:%s' % e


BUILTIN = {'cmap': lambda: _message(lambda: __import__('operator').neg(None)), 'starmap_te': lambda: _message(lambda: None - 100)}


def exp_tag(op, it, shared):
    if op in BUILTIN:
        return BUILTIN[op]()            # the very exception the user function raises, message included
    return 'shared' if shared else it[3]


def exp_exc(op, it, shared):
    if op in BUILTIN:
        return TypeError(BUILTIN[op]().split(':', 2)[2])
    return Boom(exp_tag(op, it, shared))


def ref_op_outputs(op, items):
    """per item (of ONE key, in order): list of normal outputs, computed from the unflagged items only."""
    outs = []
    a = 0
    for it in items:
        if it[2]:
            outs.append(None)          # error position
            continue
        if op == 'map':
            outs.append([it[1] + 100])
        elif op in ('starmap', 'starmap_te'):
            outs.append([it[1] - 100])
        elif op == 'filter':
            outs.append([it] if it[1] % 2 == 0 else [])
        elif op == 'cmap':
            outs.append([-it[1]])
        elif op == 'scan_reduce':
            outs.append([])
        elif op == 'scan_f':
            a = (a + it[1] + 0.5) + (2.0 ** 62 if it[1] == 5 else 0)
            outs.append([a])
        else:
            a = a + it[1]
            outs.append([a])
    return outs


def ref_op_final(op, items):
    """what the operator emits when the key completes (reduce=True: the fold of the unflagged items, the seed for none)"""
    if op != 'scan_reduce':
        return []
    return [sum(it[1] for it in items if not it[2])]


MAPVAL = ['tagged']


def mapper(e):
    # the replacement item may be any value, also None / 0 / False / ''
    v = MAPVAL[0]
    if v == 'exc':
        return e            # keep the error in place, as a value
    return ('mapped', tag_of(e)) if v == 'tagged' else {'none': None, 'zero': 0, 'false': False, 'empty': ''}[v]


def ref_tail(tail, xs):
    """(streaming outputs in order, completion outputs)"""
    if tail == 'nothing':
        return [[x] for x in xs], []
    if tail == 'to_list':
        return [[] for _ in xs], [list(xs)]
    if tail == 'count':
        return [[n + 1] for n in range(len(xs))], []
    acc = []
    out = []
    for x in xs:
        acc = acc + [x]
        out.append([list(acc)])
    return out, []


def tail_ops(tail):
    if tail == 'nothing':
        return []
    if tail == 'to_list':
        return [rs.data.to_list()]
    if tail == 'count':
        return [rs.ops.count()]
    return [rs.ops.scan(lambda a, x: a + [x], list)]


def run(case):
    op, handler, tail, driver = case['op'], case['handler'], case['tail'], case['driver']
    MAPVAL[0] = case.get('mapval', 'tagged')
    SHARED['on'], SHARED['exc'] = bool(case.get('shared_exc')), None
    SHARED['cls'] = {'deep': BoomDeep, 'attr': BoomAttr}.get(case.get('exc_kind'))
    shared = SHARED['on']
    outer = bool(case.get('outer')) and case['driver'] == 'grouped' and case['handler'] != 'none'
    items = [(k, v, bool(f), n) for n, (k, v, f) in enumerate(case['items'])]
    if driver != 'grouped':
        items = [(0, v, f, n) for (_, v, f, n) in items]
    ctx = dict(case)
    events = []          # shared order log: ('dead', tag) / ('dead_done',) / ('main_done',) / ('main_err',)
    dead = drive.Result()
    between, out_tap = [], []
    hops = []
    if handler == 'ignore':
        hops = [rs.error.ignore()]
    elif handler == 'map':
        hops = [rs.error.map(mapper)]
    elif handler == 'router':
        errors, route = rs.error.create_error_router()
        hops = [route()]

        def d_next(e):
            events.append(('dead', tag_of(e) if isinstance(e, Exception) else repr(e)))
            dead.items.append(e)

        def d_done():
            events.append(('dead_done',))
            dead.completed += 1

        def d_err(e):
            dead.error = e
        late = bool(case.get('late_dead'))
        nfail = sum(1 for i in case['items'] if i[2])
        if case.get('dead_take') and nfail >= 1 and not case.get('outer'):
            # the consumer of the dead letters wants exactly the errors there are and disposes ITSELF from inside the delivery
            # of the last one (take(n)): that error is routed, not fatal
            import rx.operators as rxops
            errors = errors.pipe(rxops.take(nfail))
        if not late:
            errors.subscribe(on_next=d_next, on_error=d_err, on_completed=d_done)
    # outer: the handler sits BEHIND group_by, nothing handles the error inside the group pipeline: it is unhandled where the
    # group stream is demultiplexed and must surface as on_error there, exactly as with no handler at all
    post = [rs.ops.map(lambda i: i), rs.ops.filter(lambda i: True)] if case.get('post') else []       # pass-through stages behind the handler
    inner = [failing_op(op), drive.tap(between)] + ([] if outer else hops + post) + tail_ops(tail) + [drive.tap(out_tap)]
    if driver == 'grouped':
        pipeline = rs.state.with_memory_store([rs.ops.group_by(lambda i: i[0], inner)] + (hops if outer else []))
    elif driver == 'store':
        pipeline = rs.state.with_memory_store(inner)
    else:
        pipeline = rs.ops.multiplex(inner)
    if handler == 'router' and case.get('late_dead'):
        # a live source: the data pipeline is subscribed first, the dead-letter observable next, then the items arrive
        from rx.subject import Subject
        src = Subject()
        r = drive.collect(src.pipe(pipeline))
        errors.subscribe(on_next=d_next, on_error=d_err, on_completed=d_done)
        import contextlib, io
        with contextlib.redirect_stdout(io.StringIO()):
            try:
                for it in items:
                    src.on_next(it)
                src.on_completed()
            except Exception as e:
                r.raised = e
    else:
        r = drive.collect(rx.from_(items).pipe(pipeline))
    r.items = [norm(x) for x in r.items]

    # ---- reference
    keys = [] if driver == 'grouped' else [0]
    per = {} if driver == 'grouped' else {0: []}
    for it in items:
        if it[0] not in per:
            per[it[0]] = []
            keys.append(it[0])
        per[it[0]].append(it)
    failing = [it for it in items if it[2]]

    # between-tap: per key, the sequence of item/error events
    if (handler != 'none' and not outer) or not failing:
        got_between = {}
        keymap = {}
        for kind, key, item, _t in between:
            if kind in ('n', 'e'):
                got_between.setdefault(key, []).append(('e', tag_of(item) if isinstance(item, Exception) else repr(item)) if kind == 'e' else ('n', item))
        # map mux keys to group keys by order of creation
        created = [key for kind, key, item, _t in between if kind == 'c']
        if len(created) != len(keys):
            raise Violation('%d keys created for %d groups' % (len(created), len(keys)), **ctx)
        for mk, k in zip(created, keys):
            exp = []
            for it, o in zip(per[k], ref_op_outputs(op, per[k])):
                if o is None:
                    exp.append(('e', exp_tag(op, it, shared)))
                else:
                    exp += [('n', x) for x in o]
            exp += [('n', x) for x in ref_op_final(op, per[k])]
            if got_between.get(mk, []) != exp:
                raise Violation('events between the failing operator and the handler differ: expected exactly one mux error per failing item, in place',
                                key=k, expected=exp, got=got_between.get(mk, []), **ctx)

    # main output
    def clean_stream(k, its):
        xs = []       # what the handler lets through for key k, per source item
        for it, o in zip(its, ref_op_outputs(op, its)):
            if o is None:
                xs.append([mapper(exp_exc(op, it, shared))] if handler == 'map' and not outer else [])
            else:
                xs.append(o)
        return xs
    exp_main = []
    finals = []
    states = {k: ([], None) for k in keys}
    # emulate tail per key over the global order
    tail_inputs = {k: [] for k in keys}
    pos = {k: 0 for k in keys}
    streams = {k: clean_stream(k, per[k]) for k in keys}
    for it in items:
        k = it[0]
        for x in streams[k][pos[k]]:
            tail_inputs[k].append(x)
            so, _ = ref_tail(tail, tail_inputs[k])
            exp_main += norm(so[-1])
        pos[k] += 1
    for k in keys:
        for x in ref_op_final(op, per[k]):
            tail_inputs[k].append(x)
            so, _ = ref_tail(tail, tail_inputs[k])
            exp_main += norm(so[-1])
        _, co = ref_tail(tail, tail_inputs[k])
        exp_main += norm(co)

    labels = (['late-dead-letter'] if handler == 'router' and case.get('late_dead') else []) + ['op:' + op, 'handler:' + handler + ('(outer)' if outer else ''), 'tail:' + tail, 'driver:' + driver, 'failing=%d' % min(len(failing), 3)]
    if failing and len(failing) == len(items):
        labels.append('all-fail')
    mixed = any(any(i[2] for i in per[k]) and any(not i[2] for i in per[k]) for k in keys)
    nt = mixed and (driver != 'grouped' or len(keys) >= 2)

    if (handler == 'none' or outer) and failing:
        if r.raised is not None:
            raise Violation('exception escaped subscribe', result=r.brief(), **ctx)
        if r.error is None:
            raise Violation('an unhandled mux error did not surface as on_error', result=r.brief(), **ctx)
        if not isinstance(r.error, TypeError if op in BUILTIN else Boom) or tag_of(r.error) != exp_tag(op, failing[0], shared):
            raise Violation('on_error carries %r, expected the exception of the first failing item (%r)' % (r.error, failing[0][3]), **ctx)
        if r.completed:
            raise Violation('stream both failed and completed', **ctx)
        # prefix of the clean output (computed with the failing items absent)
        if not (len(r.items) <= len(exp_main) and cmp.same_seq(r.items, exp_main[:len(r.items)], approx=False)):
            raise Violation('items before the error are not a prefix of the clean output', expected=exp_main, got=r.items, **ctx)
        return {'nontrivial': nt, 'labels': labels}

    H.require_clean(r, 'main stream', **ctx)
    if not cmp.same_seq(r.items, exp_main, approx=False):
        raise Violation('main output differs from the output computed without the failing items', expected=exp_main, got=r.items, **ctx)
    if handler == 'router' and not outer:
        tags = [tag_of(e) if isinstance(e, Exception) else None for e in dead.items]
        if any(not isinstance(e, TypeError if op in BUILTIN else Boom) for e in dead.items) or tags != [exp_tag(op, it, shared) for it in failing]:
            raise Violation('dead-letter observable did not receive exactly the exceptions in source order',
                            expected=[it[3] for it in failing], got=[repr(e) for e in dead.items], **ctx)
        if dead.error is not None:
            raise Violation('dead-letter observable failed', error=repr(dead.error), **ctx)
        if dead.completed != 1:
            raise Violation('dead-letter observable completed %d times' % dead.completed, **ctx)
        if events and events[-1] != ('dead_done',):
            raise Violation('dead letters were delivered after the dead-letter observable completed', events=events, **ctx)
    return {'nontrivial': nt, 'labels': labels}


@st.composite
def case_gen(draw):
    driver = draw(st.sampled_from(['store', 'grouped', 'grouped', 'multiplex']))
    op = draw(st.sampled_from(OPS if driver != 'multiplex' else ['map', 'starmap', 'filter', 'cmap', 'starmap_te']))
    tail = draw(st.sampled_from(TAILS if driver != 'multiplex' else ['nothing']))
    n = draw(st.integers(draw(st.sampled_from([0, 1, 3, 6])), 12))
    items = [[draw(st.integers(0, 2)), draw(st.integers(-5, 5)), draw(st.integers(0, 2).map(lambda x: int(x == 0)))] for _ in range(n)]
    return {'op': op, 'handler': draw(st.sampled_from(HANDLERS)), 'tail': tail, 'driver': driver, 'items': items,
            'outer': driver == 'grouped' and draw(st.integers(0, 3)) == 0,
            'mapval': draw(st.sampled_from(['tagged', 'tagged', 'none', 'zero', 'false', 'empty', 'exc'])),
            'post': draw(st.booleans()), 'late_dead': draw(st.booleans()), 'dead_take': draw(st.integers(0, 3)) == 0, 'exc_kind': draw(st.sampled_from([None, None, 'deep', 'attr'])),
            'shared_exc': draw(st.integers(0, 3)) == 0}


def enum(tier):
    nmax = 6 if tier == 'thorough' else 4
    c = 0
    for n in range(0, nmax + 1):
        for mask in range(2 ** n):
            for op in OPS:
                for handler in HANDLERS:
                    for nk in (1, 2):
                        c += 1
                        items = [[i % nk, i - 1, (mask >> i) & 1] for i in range(n)]
                        yield {'op': op, 'handler': handler, 'tail': TAILS[c % 4], 'driver': 'store' if nk == 1 else 'grouped', 'items': items}


@st.composite
def malformed_case(draw):
    n = draw(st.integers(1, 8))
    items = [draw(st.one_of(st.tuples(st.integers(-5, 5), st.integers(-5, 5)).map(list), st.none(), st.integers(0, 3), st.just([1])))
             for _ in range(n)]
    return {'items': items, 'handler': draw(st.sampled_from(HANDLERS)), 'driver': draw(st.sampled_from(['store', 'multiplex']))}


def run_malformed(case):
    """starmap over items that cannot be star-applied (None, a scalar, a tuple of the wrong arity): calling the user
    function on them raises, which is an item-level error like any other: one mux error in place, the rest continues."""
    SHARED["on"] = False
    SHARED["cls"] = None
    items = [tuple(i) if isinstance(i, list) else i for i in case['items']]
    handler = case['handler']
    good = lambda i: isinstance(i, tuple) and len(i) == 2
    between = []
    hops = {'ignore': [rs.error.ignore()], 'map': [rs.error.map(lambda e: 'mapped')], 'none': []}.get(handler)
    dead = []
    done = []
    if handler == 'router':
        errors, route = rs.error.create_error_router()
        errors.subscribe(on_next=dead.append, on_completed=lambda: done.append(1))
        hops = [route()]
    inner = [rs.ops.starmap(lambda a, b: a * 10 + b), drive.tap(between)] + hops
    pipeline = rs.state.with_memory_store(inner) if case['driver'] == 'store' else rs.ops.multiplex(inner)
    r = drive.collect(rx.from_(items).pipe(pipeline))
    ctx = dict(case)
    bad = [i for i in items if not good(i)]
    clean = []
    for i in items:
        if good(i):
            clean.append(i[0] * 10 + i[1])
        elif handler == 'map':
            clean.append('mapped')
    if handler == 'none' and bad:
        if r.raised is not None or r.error is None or r.completed:
            raise Violation('an item that cannot be star-applied did not surface as on_error', result=r.brief(), **ctx)
        if not cmp.same_seq(r.items, clean[:len(r.items)], approx=False):
            raise Violation('items before the error are not a prefix of the clean output', expected=clean, got=r.items, **ctx)
    else:
        H.require_clean(r, 'starmap with items that cannot be star-applied', **ctx)
        if not cmp.same_seq(r.items, clean, approx=False):
            raise Violation('main output differs from the output without the failing items', expected=clean, got=r.items, **ctx)
        kinds = [k for k, _key, _i, _t in between if k in ('n', 'e')]
        if kinds != ['n' if good(i) else 'e' for i in items]:
            raise Violation('not exactly one mux error per failing item, in place', got=kinds, **ctx)
        if handler == 'router' and (len(dead) != len(bad) or done != [1]):
            raise Violation('dead letters: %d for %d failing items, completed %r' % (len(dead), len(bad), done), **ctx)
    return {'nontrivial': bool(bad) and len(bad) < len(items), 'labels': ['handler:' + handler, case['driver']]}


@st.composite
def second_run_case(draw):
    n = draw(st.integers(1, 8))
    return {'items': [[draw(st.integers(-5, 5)), draw(st.integers(0, 2).map(lambda x: int(x == 0)))] for _ in range(n)],
            'op': draw(st.sampled_from(['map', 'filter'])), 'driver': draw(st.sampled_from(['store', 'multiplex']))}


def run_second(case):
    """The same router and the same pipeline serve a second stream after the first one ended: errors are routed again,
    the dead-letter observable receives them and completes again."""
    SHARED['on'] = False
    SHARED['cls'] = None
    items = [(0, v, bool(f), n) for n, (v, f) in enumerate(case['items'])]
    errors, route = rs.error.create_error_router()
    inner = [failing_op(case['op']), route()]
    pipeline = rs.state.with_memory_store(inner) if case['driver'] == 'store' else rs.ops.multiplex(inner)
    obs = rx.from_(items).pipe(pipeline)
    want_dead = [it[3] for it in items if it[2]]
    want = [x for o in ref_op_outputs(case['op'], items) if o is not None for x in o]
    for run_no in (1, 2):
        dead, done = [], []
        errors.subscribe(on_next=dead.append, on_completed=lambda: done.append(1))
        r = drive.collect(obs)
        H.require_clean(r, 'run %d of the same pipeline + router' % run_no, **case)
        if not cmp.same_seq(r.items, want, approx=False):
            raise Violation('run %d: main output differs' % run_no, expected=want, got=r.items, **case)
        if [getattr(e, 'tag', None) for e in dead] != want_dead or done != [1]:
            raise Violation('run %d: dead letters %r (completed %r), expected %r' % (run_no, [getattr(e, 'tag', repr(e)) for e in dead], done, want_dead), **case)
    return {'nontrivial': bool(want_dead) and len(want_dead) < len(items), 'labels': ['op:' + case['op'], case['driver']]}


def subs(tier):
    return [
        Sub('faults', run, gen=case_gen, examples={'quick': 2500, 'thorough': 200000},
            doc='generated keyed inputs / failing subsets / operator / handler / tail / driver vs reference computed without the failing items'),
        Sub('second_run', run_second, gen=second_run_case, examples={'quick': 400, 'thorough': 20000},
            doc='the same error router and pipeline used for a second stream after the first one ended'),
        Sub('malformed', run_malformed, gen=malformed_case, examples={'quick': 600, 'thorough': 40000},
            doc='starmap over items that cannot be star-applied (None, scalars, wrong arity) with each handler'),
        Sub('enum', run, enum=enum, doc='all failing subsets up to n items x operators x handlers x {1,2} keys'),
    ]
