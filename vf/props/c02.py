"""C02 — state confinement: a key lifetime's output depends only on that lifetime's items."""
from hypothesis import strategies as st
import rxsci as rs

from vf.core import Sub, Violation, Reject
from vf import ast as A, gen, drive, cmp, harness as H, model as M

PID = 'C02'
LEVEL = 'exploration'
RULE = ("Hypothesis draws an inner pipeline of 1..4 nodes over the stateful multiplexed catalogue (scan family, first/last/take, "
        "distinct, distinct_until_changed, lag, pad_*, start_with, batch, assert_1, tee_map, nested group_by/roll/split/time_split) "
        "and (a) a parent nesting (group_by, roll, split, time_split and two-level combinations) with an input; every key lifetime "
        "observed by a tap at the head of the inner pipeline is re-run alone through the same pipeline with a fresh store and must give "
        "the output observed by a tap at its tail; (b) two interleavings of the same per-key sequences, whose per-key outputs must be "
        "identical; (c) a raw history of lifetimes on sparse, descending and re-used slot indices {0,1,2,5,17}. Non-trivial: the "
        "pipeline has a stateful node and some slot serves >= 2 lifetimes with different items or >= 2 keys are interleaved.")
ASSUMPTIONS = [
    'both sides of every comparison are the real code; the model is only used to label cases',
    'user functions are total and pure; timestamps for time_split are non-decreasing per key',
    'raw histories are well-formed (lifetimes on one index are sequential)',
]

INNER = gen.Opts(mux=True, max_depth=2, max_len=4, exact=True, weights={'item': 2, 'fold': 5, 'seq': 5, 'muxseq': 5, 'window': 3, 'tee': 4})


TEEB = gen.Opts(mux=True, tee=False, windows=False, max_depth=0, max_len=2, exact=True)


def wrap(layers, inner_ops):
    """layers: outer -> inner list of parent specs; returns the list of real operators."""
    ops = inner_ops
    for spec in reversed(layers):
        k = spec[0]
        if k == 'group_by':
            ops = [A.twice(lambda ops=ops: rs.ops.group_by(A.f_gkey(spec[1]), ops))]
        elif k == 'roll':
            ops = [A.twice(lambda ops=ops: rs.data.roll(spec[1], spec[2], ops))]
        elif k == 'split':
            ops = [A.twice(lambda ops=ops: rs.data.split(A.splitf(spec[1], spec[2]), ops))]
        elif k == 'time_split':
            ops = [rs.data.time_split(time_mapper=A.to_dt, active_timeout=A.to_td(spec[1]), inactive_timeout=A.to_td(spec[2]),
                                      closing_mapper=A.closingf(spec[3]), include_closing_item=spec[4], pipeline=ops)]
        else:
            raise ValueError(k)
    return ops


@st.composite
def layer(draw, mono):
    kinds = ['group_by', 'roll', 'roll', 'roll', 'split', 'split', 'split'] + (['time_split'] * 4 if mono else [])
    k = draw(st.sampled_from(kinds))
    if k == 'group_by':
        return [k, draw(st.sampled_from([2, 3, 2, 3, 4]))]
    if k == 'roll':
        return [k, draw(st.integers(1, 5)), draw(st.integers(1, 5))]
    if k == 'split':
        return [k, draw(st.sampled_from(['div', 'mod', 'nonemod', 'gkey', 'nanmod', 'tokdiv', 'bigf'])), draw(st.integers(2, 3))]
    return [k, draw(st.sampled_from([None, 1, 3, 5])), draw(st.sampled_from([None, 1, 2, 3])),
            draw(st.one_of(st.none(), st.tuples(st.integers(2, 4), st.integers(0, 1)).map(list))), draw(st.booleans())]


@st.composite
def nested_case(draw):
    mono = draw(st.integers(0, 2)) == 0
    tin = 'mono' if mono else 'int'
    layers = [draw(layer(mono)) for _ in range(draw(st.sampled_from([1, 1, 2])))]
    if draw(st.integers(0, 4)) == 0:
        # a join that keeps per-key slots, with a branch that can stay silent during a lifetime, at the head
        join = draw(st.sampled_from(['zip', 'combine_latest']))
        branches = [draw(gen.chain(tin, TEEB, 1, max_len=2)) for _ in range(draw(st.integers(2, 3)))]
        k = draw(st.integers(0, len(branches) - 1))
        branches[k] = [draw(st.sampled_from([['filter_gt', 2], ['filter_mod', 2, 0], ['filter_mod', 3, 1], ['take', 1]]))] + branches[k]
        tee = ['tee', join, branches]
        t2 = A.KINDS['tee'].accept(tin, tee)
        p = [tee] + draw(gen.chain(t2, INNER, 1, max_len=2))
    else:
        p = draw(gen.chain(tin, INNER, INNER.max_depth, min_len=1))
    n0 = draw(st.sampled_from([1, 4, 6, 8]))
    if mono:
        items = draw(gen.mono_items(16))
        items = items + [items[-1] + d for d in range(max(0, n0 - len(items)))] if items else list(range(n0))
    else:
        items = draw(st.lists(st.integers(-8, 8), min_size=n0, max_size=16))
    return {'tin': tin, 'layers': layers, 'p': p, 'items': items}


def wrap_ast(layers, p):
    node_p = p
    for spec in reversed(layers):
        node_p = [list(spec) + [node_p]]
    return node_p


def in_domain(p, items):
    """Reject (counted) when the reference model says the case is outside the domain (mean of nothing)."""
    H.model_events(p, items, 'mux')


def standalone(p, items):
    return drive.store(items, A.build_pipeline(p, A.Env()))


def pair_lifetimes(head, tail, ctx):
    hl = drive.lifetimes_of(head)
    tl = drive.lifetimes_of(tail)
    by_key = {}
    for lt in tl:
        by_key.setdefault(lt['key'], []).append(lt)
    seen = {}
    pairs = []
    for lt in hl:
        j = seen.get(lt['key'], 0)
        seen[lt['key']] = j + 1
        cands = by_key.get(lt['key'], [])
        if lt.get('orphan') or not lt['closed']:
            raise Violation('a key lifetime at the head of the inner pipeline is not create..items..complete', lifetime=lt, **ctx)
        if j >= len(cands):
            raise Violation('lifetime %d of key %r never appears at the tail of the inner pipeline' % (j, lt['key']), **ctx)
        pairs.append((lt, cands[j]))
    return pairs


def check_nested(case):
    p, items, layers = case['p'], case['items'], case['layers']
    in_domain(wrap_ast(layers, p), items)
    head, tail = [], []
    env = A.Env()
    ops = wrap(layers, [drive.tap(head)] + A.build_pipeline(p, env) + [drive.tap(tail)])
    r = drive.store(items, ops)
    ctx = {'pipeline': p, 'layers': layers, 'items': items}
    H.require_clean(r, 'nested run', **ctx)
    pairs = pair_lifetimes(head, tail, ctx)
    slots = {}
    for h, t in pairs:
        alone = standalone(p, h['items'])
        H.require_clean(alone, 'standalone run', lifetime_items=h['items'], **ctx)
        if not cmp.same_seq(t['items'], alone.items, approx=False):
            raise Violation('a key lifetime emits something else nested than alone', key=h['key'], lifetime_items=h['items'],
                            nested=t['items'], alone=alone.items, **ctx)
        slots.setdefault(h['key'][0], []).append(h['items'])
    reuse = any(len(v) >= 2 and any(a != v[0] for a in v[1:]) for v in slots.values())
    labels = ['parent:' + '+'.join(l[0] for l in layers)] + H.labels_of(p)
    if reuse:
        labels.append('slot-reuse')
    if p and p[0][0] == 'tee' and p[0][1] != 'merge':
        # the history that exposed D4: a tee branch that stays silent during some lifetime (decided by the model)
        silent = False
        for h, _ in pairs:
            for b in p[0][2]:
                try:
                    ev, _c = H.model_events(b, h['items'], 'mux')
                except Reject:
                    ev = [1]
                if not ev:
                    silent = True
        if silent:
            labels.append('tee-branch-silent')
    stateful = A.pipeline_stateful(p)
    return {'nontrivial': stateful and reuse, 'labels': labels}


# ------------------------------------------------------------------ interleavings

@st.composite
def interleave_case(draw):
    mono = draw(st.integers(0, 3)) == 0
    tin = 'mono' if mono else 'int'
    p = draw(gen.chain(tin, INNER, INNER.max_depth, min_len=1))
    items = draw(gen.keyed_items(max_keys=4, max_size=14, mono=mono))
    keys = [k for k, _ in items]
    perm = draw(st.permutations(keys))
    return {'tin': tin, 'p': p, 'items': items, 'keys_b': list(perm)}


def run_grouped(p, items):
    head, tail = [], []
    # group key values with equal hashes (-1 / -2, two tuples): groups are told apart by ==
    ops = [rs.ops.group_by(lambda i: A.GKEYS[i[0] % len(A.GKEYS)], [drive.tap(head), rs.ops.map(lambda i: i[1])] + A.build_pipeline(p, A.Env()) + [drive.tap(tail)])]
    r = drive.store([tuple(i) for i in items], ops)
    keymap = {}
    for kind, key, item, _t in head:
        if kind == 'n':
            keymap[key] = item[0]
    per = {}
    for kind, key, item, _t in tail:
        if kind == 'n':
            per.setdefault(keymap.get(key, ('?', key)), []).append(item)
    return r, per


def check_interleave(case):
    p, items = case['p'], case['items']
    seqs = {}
    for k, v in items:
        seqs.setdefault(k, []).append(v)
    pos = {k: 0 for k in seqs}
    items_b = []
    for k in case['keys_b']:
        items_b.append([k, seqs[k][pos[k]]])
        pos[k] += 1
    if case['tin'] == 'mono':
        # timestamps must stay non-decreasing per key only: they do, per-key order is preserved
        pass
    for k in seqs:
        in_domain(p, seqs[k])
    ra, pa = run_grouped(p, items)
    rb, pb = run_grouped(p, items_b)
    ctx = {'pipeline': p, 'items_a': items, 'items_b': items_b}
    H.require_clean(ra, 'interleaving A', **ctx)
    H.require_clean(rb, 'interleaving B', **ctx)
    for k in seqs:
        if not cmp.same_seq(pa.get(k, []), pb.get(k, []), approx=False):
            raise Violation('output of key %r depends on how the other keys are interleaved' % k, key=k,
                            a=pa.get(k, []), b=pb.get(k, []), **ctx)
    keys = [k for k, _ in items]
    different = items_b != items
    labels = H.labels_of(p) + ['keys=%d' % len(seqs)]
    return {'nontrivial': A.pipeline_stateful(p) and len(seqs) >= 2 and different, 'labels': labels}


# ------------------------------------------------------------------ raw slot histories

SLOTS = [0, 1, 2, 5, 17, 40, 2088]        # sparse: 40 and 2088 are more than two 1024-slot blocks apart


@st.composite
def raw_case(draw):
    mono = draw(st.integers(0, 3)) == 0
    tin = 'mono' if mono else 'int'
    p = draw(gen.chain(tin, INNER, INNER.max_depth, min_len=1))
    nl = draw(st.integers(1, 6))
    lifetimes = []
    for _ in range(nl):
        idx = draw(st.sampled_from(SLOTS))
        its = draw(gen.mono_items(6) if mono else gen.int_items(6))
        lifetimes.append([idx, its])
    total = sum(len(l[1]) + 2 for l in lifetimes)
    sched = draw(st.lists(st.integers(0, 4), min_size=total, max_size=total))
    return {'tin': tin, 'p': p, 'lifetimes': lifetimes, 'sched': sched}


def check_raw(case):
    p = case['p']
    for _, its in case['lifetimes']:
        in_domain(p, its)
    queues = {}
    for n, (idx, its) in enumerate(case['lifetimes']):
        q = queues.setdefault(idx, [])
        q.append(('c', n, None))
        for v in its:
            q.append(('n', n, v))
        q.append(('d', n, None))
    events = []
    order = []   # lifetime ids in creation order
    sched = list(case['sched'])
    while any(queues.values()):
        active = sorted(i for i, q in queues.items() if q)
        i = active[sched.pop(0) % len(active)] if sched else active[0]
        kind, n, v = queues[i].pop(0)
        key = (i,)
        if kind == 'c':
            events.append(rs.OnCreateMux(key))
            order.append(n)
        elif kind == 'n':
            events.append(rs.OnNextMux(key, v))
        else:
            events.append(rs.OnCompletedMux(key))
    tail = []
    r = drive.rawmux(events, A.build_pipeline(p, A.Env()) + [drive.tap(tail)])
    ctx = {'pipeline': p, 'lifetimes': case['lifetimes'], 'events': [(type(e).__name__, e.key, getattr(e, 'item', None)) for e in events]}
    H.require_clean(r, 'raw history', **ctx)
    tl = drive.lifetimes_of(tail)
    if len(tl) != len(order) or any(not t['closed'] or t.get('orphan') for t in tl):
        raise Violation('lifetimes at the tail do not match the %d lifetimes fed' % len(order), tail=[(t['key'], t['items'], t['closed']) for t in tl], **ctx)
    # creation order is preserved by every operator (creates are forwarded synchronously)
    for n, t in zip(order, tl):
        idx, its = case['lifetimes'][n]
        if t['key'][0] != idx:
            raise Violation('lifetime order at the tail differs from creation order', **ctx)
        alone = standalone(p, its)
        H.require_clean(alone, 'standalone run', lifetime_items=its, **ctx)
        if not cmp.same_seq(t['items'], alone.items, approx=False):
            raise Violation('a lifetime on slot %d emits something else in the history than alone' % idx, slot=idx,
                            lifetime_items=its, in_history=t['items'], alone=alone.items, **ctx)
    by_idx = {}
    for idx, its in case['lifetimes']:
        by_idx.setdefault(idx, []).append(its)
    reuse = any(len(v) >= 2 and any(a != v[0] for a in v[1:]) for v in by_idx.values())
    idxs = [l[0] for l in case['lifetimes']]
    labels = H.labels_of(p)
    if reuse:
        labels.append('slot-reuse')
    if any(a > b for a, b in zip(idxs, idxs[1:])):
        labels.append('descending')
    return {'nontrivial': A.pipeline_stateful(p) and (reuse or len(by_idx) >= 2), 'labels': labels}


MANY_P = [
    [['tee', 'zip', [[], [['filter_mod', 2, 0]]]]],
    [['tee', 'combine_latest', [[['scan_sum', False]], [['filter_gt', 0]], []]]],
    [['scan_sum', False], ['lag', 1]],
    [['distinct', 0], ['pad_end', 1, None]],
    [['roll', 2, 1, [['scan_sum', True]]]],
]


# gapped windows (stride > window) with an inner group_by: every second / third item of a key opens a new window on the slot of
# the previous one, and its first item falls into the same inner group as the last item before the gap
MANY_GAPPED = [
    [['roll', 1, 2, [['group_by', 2, [['count', True]]]]]],
    [['roll', 2, 3, [['group_by', 3, [['scan_sum', True]]]]]],
]


def many_enum(tier):
    for nk in ((300, 5000) if tier == 'quick' else (300, 4097, 5000, 9000)):
        for p in MANY_P:
            yield {'nk': nk, 'p': p}
    for nk in ((300,) if tier == 'quick' else (300, 1100)):
        for p in MANY_GAPPED:
            # each key's items in one run (a source sorted by user): key indices beyond CPython's cached small ints (256)
            yield {'nk': nk, 'p': p, 'contiguous': 7}


def check_many(case):
    """Thousands of keys alive at the same time (a group_by over many users): per-key slots must not alias each other
    (key k vs key k + 4096, ...).  Every key's output is compared with the reference model of its own items."""
    nk, p = case['nk'], case['p']
    # three rounds over all keys: every key has 3 items, all keys stay live until the end
    items = [(k, (k * 7 + r * 3) % 11 - 4) for r in range(3) for k in range(nk)]
    if case.get('contiguous'):
        items = [(k, (k + r) % 2) for k in range(nk) for r in range(case['contiguous'])]
    tail = []
    ops = [rs.ops.group_by(lambda i: i[0], [rs.ops.map(lambda i: i[1])] + A.build_pipeline(p, A.Env()) + [drive.tap(tail)])]
    r = drive.store(items, ops)
    H.require_clean(r, 'group_by over %d live keys' % nk, pipeline=p)
    per = {}
    order = []
    for kind, key, item, _t in tail:
        if kind == 'c':
            order.append(key)
        elif kind == 'n':
            per.setdefault(key, []).append(item)
    if len(order) != nk:
        raise Violation('%d groups created for %d keys' % (len(order), nk), pipeline=p)
    for k, key in enumerate(order):           # groups are created in order of first appearance = key order
        vals = [v for kk, v in items if kk == k] if (nk <= 300 or case.get('contiguous')) else [(k * 7 + r_ * 3) % 11 - 4 for r_ in range(3)]
        exp = [v for _, v in H.model_events(p, vals, 'mux')[0]]
        if not cmp.same_seq(per.get(key, []), exp, approx=True):
            raise Violation('key %d of %d live keys: output differs from the model of its own items' % (k, nk), key=k, values=vals,
                            expected=exp, got=per.get(key, []), pipeline=p)
    return {'nontrivial': True, 'labels': ['keys=%d' % nk] + H.labels_of(p)}


def coverage_targets(classes, total):
    out = []
    n = sum(v for k, v in classes.items() if k.startswith('nested:parent:'))
    r = classes.get('nested:slot-reuse', 0)
    if n and r < 0.25 * n:
        out.append('nested: only %d of %d cases re-use a slot (target 25%%)' % (r, n))
    t = classes.get('nested:tee-branch-silent', 0)
    if n and t < 0.01 * n:
        out.append('nested: only %d of %d cases have a silent tee branch in some lifetime (target 1%%)' % (t, n))
    return out


def subs(tier):
    return [
        Sub('nested', check_nested, gen=nested_case, examples={'quick': 1500, 'thorough': 150000},
            doc='every key lifetime under group_by/roll/split/time_split (1-2 levels) vs the same items run alone'),
        Sub('interleave', check_interleave, gen=interleave_case, examples={'quick': 1200, 'thorough': 120000},
            doc='two interleavings of the same per-key sequences give identical per-key outputs'),
        Sub('many_keys', check_many, enum=many_enum, doc='300 .. 9000 keys alive at once under group_by: no aliasing between per-key slots'),
        Sub('raw', check_raw, gen=raw_case, examples={'quick': 1500, 'thorough': 150000},
            doc='raw histories of lifetimes on sparse/descending/re-used slot indices vs each lifetime alone'),
    ]
