"""C03 — the mux event protocol is well-formed at every operator boundary."""
from hypothesis import strategies as st
import rxsci as rs

from vf.core import Sub, Violation, Reject
from vf import ast as A, gen, drive, cmp, harness as H, monitor
from vf.props import c02

PID = 'C03'
LEVEL = 'exploration'
RULE = ("Hypothesis draws pipelines over the whole catalogue (dual-mode and mux-only operators, group_by / roll / split / time_split / "
        "tee_map nested to depth 3) and inputs of 0..20 items (empty source, groups emptied by a filter, window > stream, stride > "
        "window); a monitor wrapped around the observer of EVERY rs.MuxObservable subscription (monkeypatched constructor, so also "
        "the boundaries inside composite operators) checks create / items / exactly-one-completion, uniqueness of live slot indices "
        "and 'no live key at stream completion'. Drivers: with_memory_store, raw mux histories with slot re-use, multiplex. Sub "
        "'roll_enum' enumerates all (window, stride, length) <= (7,7,25) for roll alone and under group_by. Non-trivial: a "
        "window/group operator, >= 3 monitored boundaries, >= 2 keys created on some boundary.")
ASSUMPTIONS = [
    'pipelines contain no raising user function (OnErrorMux does not occur in this domain)',
    'the monitor sees exactly the calls an operator makes on its downstream (it sits inside the AutoDetachObserver)',
    'raw input histories are well-formed themselves (checked by the same monitor on the cast_as_mux_observable boundary)',
]

OPTS = gen.Opts(mux=True, max_depth=3, max_len=4, exact=True, weights={'window': 9, 'tee': 5, 'muxseq': 3})
STATELESS = gen.Opts(mux=True, windows=False, max_depth=2, max_len=5, exact=True, stateless=True)
WINDOWS = {'group_by', 'roll', 'split', 'time_split'}


def verdict(what, **ctx):
    if monitor.REC.violations:
        v = monitor.REC.violations[0]
        raise Violation('%s: %s at %s' % (what, v['what'], v['boundary']), violations=list(monitor.REC.violations), **ctx)


def info(p):
    b = monitor.REC.boundaries
    labels = H.labels_of(p) + ['boundary:' + k for k in b if k.startswith('rxsci/')]
    nt = bool(set(A.kinds_in(p)) & WINDOWS) and len(b) >= 3 and any(v >= 2 for v in b.values())
    return {'nontrivial': nt, 'labels': labels}


@st.composite
def src_case(draw, opts, **kw):
    case = draw(H.pipeline_case(opts, **kw))
    # how the plain source delivers: from the scheduler's trampoline, or synchronously inside subscribe()
    case['src'] = draw(st.sampled_from(['from', 'from', 'create', 'replay']))
    return case


def check_store(case):
    monitor.install()
    p, items = case['p'], case['items']
    c02.in_domain(p, items)
    monitor.REC.reset()
    r = drive.store(items, A.build_pipeline(p, A.Env()), src=case.get('src', 'from'))
    verdict('with_memory_store', pipeline=p, items=items, src=case.get('src', 'from'))
    H.require_clean(r, 'with_memory_store', pipeline=p, items=items)
    return info(p)


def check_multiplex(case):
    monitor.install()
    p, items = case['p'], case['items']
    monitor.REC.reset()
    r = drive.multiplex(items, A.build_pipeline(p, A.Env()), src=case.get('src', 'from'))
    verdict('multiplex', pipeline=p, items=items, src=case.get('src', 'from'))
    H.require_clean(r, 'multiplex', pipeline=p, items=items)
    i = info(p)
    i['nontrivial'] = len(monitor.REC.boundaries) >= 3 and len(items) >= 1
    return i


def check_raw(case):
    monitor.install()
    p = case['p']
    for _, its in case['lifetimes']:
        c02.in_domain(p, its)
    events = raw_events(case)
    monitor.REC.reset()
    r = drive.rawmux(events, A.build_pipeline(p, A.Env()))
    ctx = {'pipeline': p, 'lifetimes': case['lifetimes'], 'sched': case['sched']}
    verdict('raw history', **ctx)
    H.require_clean(r, 'raw history', **ctx)
    i = info(p)
    i['nontrivial'] = i['nontrivial'] or (A.pipeline_stateful(p) and len(case['lifetimes']) >= 2)
    return i


def raw_events(case):
    queues = {}
    for n, (idx, its) in enumerate(case['lifetimes']):
        q = queues.setdefault(idx, [])
        q.append(rs.OnCreateMux((idx,)))
        for v in its:
            q.append(rs.OnNextMux((idx,), v))
        q.append(rs.OnCompletedMux((idx,)))
    events = []
    sched = list(case['sched'])
    while any(queues.values()):
        active = sorted(i for i, q in queues.items() if q)
        i = active[sched.pop(0) % len(active)] if sched else active[0]
        events.append(queues[i].pop(0))
    return events


class Boom(Exception):
    pass


def _raising_map(m, r):
    def f(x):
        if x % m == r:
            raise Boom(x)
        return x + 1
    return f


@st.composite
def error_case(draw):
    mono = draw(st.integers(0, 3)) == 0
    layers = [draw(c02.layer(mono)) for _ in range(draw(st.sampled_from([0, 1, 1, 2])))]
    tail = draw(gen.chain('int', gen.Opts(mux=True, max_depth=1, max_len=2, exact=True, time_split=False), 1))
    items = draw(gen.mono_items(14) if mono else gen.int_items(14))
    return {'tin': 'mono' if mono else 'int', 'layers': layers, 'fail': [draw(st.integers(2, 4)), draw(st.integers(0, 1))],
            'handler': draw(st.sampled_from(['ignore', 'map', 'router'])), 'tail': tail, 'items': items}


def check_errors(case):
    """Item-level mux errors inside nested windows/groups, handled directly behind the failing map: the lifecycle must
    stay well-formed at every boundary (an error is only ever emitted for a live key) and the stream completes."""
    monitor.install()
    m, r = case['fail']
    if case['handler'] == 'ignore':
        h = [rs.error.ignore()]
    elif case['handler'] == 'map':
        h = [rs.error.map(lambda e: -1)]
    else:
        errors, route = rs.error.create_error_router()
        errors.subscribe(on_next=lambda e: None)
        h = [route()]
    # the tail must be in its domain on what the handler lets through: decided on the model of the tail alone is not possible
    # per window; mean(reduce) is the only out-of-domain operator and is simply not used here
    if any(n[0] == 'mean' and n[1] for n in A.walk(case['tail'])):
        raise Reject()
    inner = [rs.ops.map(_raising_map(m, r))] + h + A.build_pipeline(case['tail'], A.Env())
    monitor.REC.reset()
    res = drive.store(case['items'], c02.wrap(case['layers'], inner))
    ctx = dict(case)
    verdict('errors under nesting', **ctx)
    H.require_clean(res, 'errors under nesting', **ctx)
    failing = sum(1 for x in case['items'] if x % m == r)
    i = info(case['tail'])
    i['labels'] = ['handler:' + case['handler'], 'layers:' + ('+'.join(l[0] for l in case['layers']) or 'none'), 'failing=%d' % min(failing, 3)]
    i['nontrivial'] = failing >= 1 and len(case['layers']) >= 1 and len(case['items']) > failing
    return i


INNERS = [[], [['to_list']], [['count', True], ['pad_end', 1, None]], [['tee', 'zip', [[['last']], [['scan_sum', False]]]]]]


def roll_enum(tier):
    wmax, nmax = (7, 25) if tier == 'thorough' else (5, 13)
    for w in range(1, wmax + 1):
        for s in range(1, wmax + 1):
            for n in range(0, nmax + 1):
                inner = INNERS[(w + s + n) % len(INNERS)]
                yield {'tin': 'int', 'p': [['roll', w, s, inner]], 'items': list(range(n))}
                if n % 2 == 0:
                    yield {'tin': 'int', 'p': [['group_by', 2, [['roll', w, s, inner]]]], 'items': list(range(n))}


def subs(tier):
    return [
        Sub('store', check_store, gen=lambda: src_case(OPTS, max_items=20, min_len=1), examples={'quick': 2500, 'thorough': 300000},
            doc='rx.from_(items).pipe(with_memory_store(P)) with the monitor on every MuxObservable boundary'),
        Sub('raw', check_raw, gen=c02.raw_case, examples={'quick': 1000, 'thorough': 100000},
            doc='well-formed raw mux histories (slot re-use, sparse indices, interleaving) through P'),
        Sub('multiplex', check_multiplex, gen=lambda: src_case(STATELESS, max_items=12, min_len=1), examples={'quick': 500, 'thorough': 40000},
            doc='rs.ops.multiplex(P) for stateless P (incl. merge/zip tees)'),
        Sub('errors', check_errors, gen=error_case, examples={'quick': 800, 'thorough': 60000},
            doc='a raising map + ignore / error.map / router inside group_by/roll/split/time_split nestings: lifecycle stays well-formed'),
        Sub('roll_enum', check_store, enum=roll_enum, doc='exhaustive (window, stride, length) for roll alone and under group_by'),
    ]
