"""C07 — time_split sessions respect active/inactive timeouts and closing items."""
import datetime
import itertools
from hypothesis import strategies as st
import rxsci as rs

from vf.core import Sub, Violation, Reject
from vf import drive, cmp, harness as H

PID = 'C07'
LEVEL = 'exploration'
RULE = ("Items are (timestamp, closing flag, group key) with non-decreasing timestamps (deltas 0..7 s: equal timestamps, gaps exactly "
        "equal to a timeout), active_timeout in {None,0,1,3,5,8}, inactive_timeout in {None,0,1,2,3} (datetime / timedelta values; the unit is a second, an hour, half a day or a day), closing_mapper present/absent, "
        "include_closing_item True/False, at top level, under group_by with interleaved keys and under split (the parent key slot is re-used by successive segments). Oracle: the statement of C07 "
        "transcribed as a plain loop; the non-empty windows seen by a tap at the head of the window pipeline must equal its windows, "
        "per parent key, in order (so every item is in exactly one window). Sub 'enum' enumerates every delta sequence over {0,1,2,3} "
        "(x closing flags) up to length 2 (quick) / 5 (thorough) x every configuration. Non-trivial: >= 2 windows and a gap exactly "
        "equal to a configured timeout or a closing item.")
ASSUMPTIONS = [
    'timestamps are non-decreasing per key; a timeout of zero means every item is at least that far from its reference (each item opens a window)',
    'an empty window opened after an included closing item is neither required nor forbidden: only non-empty windows are compared',
]

ACTIVE = [None, 1, 3, 5, 8, 0]
INACTIVE = [None, 1, 2, 3, 0]


class Stamp(datetime.datetime):
    pass


def sessions(items, active, inactive, closing, include, self_closed=None):
    """The statement, transcribed.  items: (ts, flag, ...).  self_closed (optional list) receives, per returned
    window, whether it was closed by its own last item (an included closing item)."""
    windows = []
    marks = {}
    cur = None
    ref = prev = None
    for it in items:
        ts = it[0]
        if cur is None:
            cur = []
            windows.append(cur)
            ref = prev = ts
            opens = False
        else:
            opens = (active is not None and ts >= ref + active) or (inactive is not None and ts >= prev + inactive)
        if opens:
            cur = [it]
            windows.append(cur)
            ref = prev = ts
        elif closing and it[1]:
            if include:
                cur.append(it)
                marks[id(cur)] = True
                cur = []
                windows.append(cur)
            else:
                cur = [it]
                windows.append(cur)
            ref = prev = ts
        else:
            cur.append(it)
            prev = ts
    if self_closed is not None:
        self_closed.extend(bool(marks.get(id(w))) for w in windows if w)
    return [w for w in windows if w]


def run_case(case):
    active, inactive, closing, include = case['active'], case['inactive'], case['closing'], case['include']
    t = case.get('t0', 0)
    items = []
    for n, d in enumerate(case['deltas']):
        t += d
        g_ = case['gk'][n] if case.get('gk') else 0
        # every key's timestamps are non-decreasing; with 'skew' the keys' clocks are far apart (one log replayed after another)
        skew = (2 - g_) * 997 if case.get('skew') and case.get('grouped') is True else 0
        items.append((t + skew, bool(case['flags'][n]), g_, n))
    grouped = case.get('grouped', False)
    ctx = dict(case)
    # the documented types: time_mapper returns datetime, timeouts are timedelta; `scale` stretches one unit to
    # seconds / hours / days (gaps and timeouts of whole days: timedelta.seconds alone would be 0)
    scale = case.get('scale', 1)
    base = datetime.datetime(2020, 2, 27, 23, 59, 58, tzinfo=datetime.timezone.utc if case.get('tz') else None)
    def tm(i):
        t = base + datetime.timedelta(seconds=i[0] * scale)
        if case.get('tz') == 'mixed' and i[3] % 2:
            # the same instant expressed with another UTC offset (two sites, a DST change): aware datetimes compare as instants
            t = t.astimezone(datetime.timezone(datetime.timedelta(hours=5, minutes=30)))
        if case.get('stamp'):
            t = Stamp.combine(t.date(), t.timetz())        # an instance of a datetime SUBCLASS (pandas.Timestamp is one)
        return t
    def td(n):
        return None if n is None else datetime.timedelta(seconds=n * scale)
    clock, phead, head = [0], [], []
    import functools
    cm_kind = case.get('cm', 'lambda')
    if cm_kind == 'default_arg':
        closing_mapper = lambda i, kind=True: i[1] is kind            # a one-argument mapper that happens to have a defaulted parameter
    elif cm_kind == 'partial':
        closing_mapper = functools.partial(lambda flag, i: i[1] is flag, True)
    elif cm_kind == 'obj':
        class _CM(object):
            def __call__(self, i):
                return i[1]
        closing_mapper = _CM()
    else:
        closing_mapper = lambda i: i[1]
    window_pipeline = [drive.tap(head, clock), rs.data.to_list()]
    # the same list object first serves another time_split with other settings (thrown away): constructing an operator
    # must not modify the caller's list nor leak settings into the next construction
    rs.data.time_split(time_mapper=tm, active_timeout=td(2), inactive_timeout=td(1), closing_mapper=lambda i: True, pipeline=window_pipeline)
    inner = [drive.tap(phead, clock), rs.data.time_split(
        time_mapper=tm, active_timeout=td(active), inactive_timeout=td(inactive),
        closing_mapper=closing_mapper if closing else None, include_closing_item=include,
        pipeline=window_pipeline)]
    if case.get('post'):
        # a key-stateful stage behind time_split, in the same parent key: the last window's result must reach it before the
        # parent key completes (total number of items in the key's windows)
        inner = inner + [rs.ops.map(len), rs.math.sum(reduce=True)]
    if grouped == 'split':
        ops = [rs.data.split(lambda i: i[2], inner)]       # parent key slot re-used by successive segments
    else:
        ops = [rs.ops.group_by(lambda i: i[2], inner)] if grouped else inner
    r = drive.store(items, ops)
    H.require_clean(r, 'time_split run', **ctx)
    plts = drive.lifetimes_of(phead)
    wl = drive.lifetimes_of(head)
    claimed = 0
    nwin = 0
    allw = []
    for plt in plts:
        if plt.get('orphan') or not plt['closed']:
            raise Violation('parent lifetime is not create..items..complete', **ctx)
        mine = sorted([l for l in wl if l['key'][1] == plt['key'] and plt['open_t'] < l['open_t'] < plt['close_t']], key=lambda l: l['open_t'])
        claimed += len(mine)
        for l in mine:
            if l.get('orphan') or not l['closed']:
                raise Violation('window is not create..items..complete', window=l['items'], **ctx)
        got = [l['items'] for l in mine if l['items']]
        selfc = []
        exp = sessions(plt['items'], active, inactive, closing, include, selfc)
        if not cmp.same_seq(got, exp, approx=False):
            raise Violation('windows differ from the sessions the statement defines', key_items=plt['items'], expected=exp, got=got, **ctx)
        # when is a window closed?  by the item that opens the next one (timeouts / excluded closing item), by the
        # closing item itself when it is included ("it closes the current window"), or by the completion of the key.
        outer = list(plt['item_t']) + [plt['close_t']]
        pos = 0
        nonempty = [l for l in mine if l['items']]
        for j, (l, w) in enumerate(zip(nonempty, exp)):
            last = pos + len(w) - 1              # index (within the key) of the window's last item
            if j == 0 and (active == 0 or inactive == 0):
                # degenerate: with a zero timeout the first item of a key is itself 'at least 0 after its reference';
                # the implementation expires the (empty) window it has just opened -- only window contents are compared here
                pos += len(w)
                continue
            closed_by_own_item = selfc[j]
            k = last if closed_by_own_item else last + 1
            if not (outer[k] < l['close_t'] and (k + 1 >= len(outer) or l['close_t'] < outer[k + 1])):
                raise Violation('window %d was not closed while %s was being processed' % (
                    j, 'its closing item' if closed_by_own_item else ('the completion of its key' if k == len(outer) - 1 else 'the item that opens the next window')),
                    key_items=plt['items'], windows=exp, **ctx)
            pos += len(w)
        nwin = max(nwin, len(exp))
        allw.append(exp)
    if claimed != len(wl):
        raise Violation('windows outside any parent key lifetime', **ctx)
    # the emitted lists: every non-empty window appears exactly once in the output (empty ones may appear as [])
    outs = [o for o in r.items if o]
    flat = [w for ws in allw for w in ws]
    if case.get('post'):
        want = sorted(len(plt['items']) for plt in plts)
        if sorted(r.items) != want:
            raise Violation('a stage behind time_split did not receive every window of its key before the key completed',
                            expected_totals=want, got=r.items, **ctx)
    elif not cmp.same_bag(outs, flat, approx=False):
        raise Violation('to_list results are not the windows', expected=flat, got=outs, **ctx)
    exact_gap = False
    for plt in plts:
        ts = [i[0] for i in plt['items']]
        for a, b in zip(ts, ts[1:]):
            if (inactive is not None and b - a == inactive) or (active is not None and b - a == active):
                exact_gap = True
    has_closing = closing and any(case['flags'])
    labels = (['tz-mixed-offsets'] if case.get('tz') == 'mixed' else ['tz-aware'] if case.get('tz') else ['naive']) + ['scale=%d' % scale, 'active=%s' % active, 'inactive=%s' % inactive, 'closing=%s' % ('inc' if closing and include else ('exc' if closing else 'no')),
              ('grouped' if grouped is True else ('under-split' if grouped else 'top')), 'windows=%d' % min(nwin, 4)]
    if exact_gap:
        labels.append('gap==timeout')
    if has_closing:
        labels.append('closing-item')
    return {'nontrivial': nwin >= 2 and (exact_gap or has_closing), 'labels': labels}


@st.composite
def case_gen(draw):
    n = draw(st.integers(draw(st.sampled_from([0, 1, 4, 8])), 16))
    closing = draw(st.booleans())
    case = {
        'active': draw(st.sampled_from(ACTIVE)), 'inactive': draw(st.sampled_from(INACTIVE)),
        'closing': closing, 'include': draw(st.booleans()),
        't0': draw(st.integers(0, 3)),
        'deltas': draw(st.lists(st.integers(0, 7), min_size=n, max_size=n)),
        'flags': draw(st.lists(st.integers(0, 3).map(lambda x: int(x == 0)), min_size=n, max_size=n)),
        'grouped': draw(st.sampled_from([False, True, True, 'split'])), 'scale': draw(st.sampled_from([1, 1, 3600, 43200, 86400, 0.2, 0.001])), 'cm': draw(st.sampled_from(['lambda', 'default_arg', 'partial', 'obj'])), 'tz': draw(st.sampled_from([False, True, 'mixed'])), 'post': draw(st.integers(0, 3)) == 0, 'stamp': draw(st.integers(0, 3)) == 0, 'skew': draw(st.integers(0, 2)) == 0,
    }
    case['gk'] = draw(st.lists(st.integers(0, 2), min_size=n, max_size=n)) if case['grouped'] else None
    return case


def enum(tier):
    maxn = 5 if tier == 'thorough' else 2
    for n in range(0, maxn + 1):
        for deltas in itertools.product([0, 1, 2, 3], repeat=n):
            for active in ACTIVE:
                for inactive in INACTIVE:
                    yield {'active': active, 'inactive': inactive, 'closing': False, 'include': True, 'deltas': list(deltas),
                           'flags': [0] * n, 'grouped': False, 'scale': [1, 86400, 3600][(n + len(deltas) + (active or 0)) % 3]}
                    if n == 0:
                        continue
                    if n >= 5 and (active in (5, 8) or inactive == 3):
                        continue
                    for flags in itertools.product([0, 1], repeat=n):
                        if not any(flags):
                            continue
                        for include in (True, False):
                            yield {'active': active, 'inactive': inactive, 'closing': True, 'include': include,
                                   'deltas': list(deltas), 'flags': list(flags), 'grouped': False}


def subs(tier):
    return [
        Sub('sessions', run_case, gen=case_gen, examples={'quick': 3000, 'thorough': 200000},
            doc='generated timestamp/flag sequences and configurations, top level and under group_by, vs the transcribed statement'),
        Sub('enum', run_case, enum=enum, doc='every delta sequence over {0..3} x closing flags up to the bound x every configuration'),
    ]
