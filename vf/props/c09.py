"""C09 — scan/reduce algebra: running folds, final fold, per-key seed isolation."""
import copy
import contextlib
import io
from array import array

import distogram
from hypothesis import strategies as st
import rx
import rxsci as rs

from vf.core import Sub, Violation, Reject
from vf import ast as A, gen, drive, cmp, harness as H, model as M
from vf.props import c02, c03

PID = 'C09'
LEVEL = 'exploration'
RULE = ("Hypothesis draws an accumulator (int sum, float sum, bool or, tuple min/max, None-seeded min, and MUTATING ones: list append, "
        "dict count, nested list), the seed given as a value or as a factory, reduce on/off, terminator on/off, an optional filter in "
        "front (empty keys) and a keyed history: under group_by / roll / split / time_split nestings (slot re-use) or as raw mux "
        "lifetimes on sparse / re-used slot indices. Per key lifetime (taps in front of and behind the scan): streaming output == the "
        "running left fold computed with a pure re-implementation of the accumulator from a fresh seed; reduce == exactly one item == "
        "last fold or the seed; last streaming value == reduce value on the same history (metamorphic); the terminator is called "
        "exactly once per lifetime with the last fold; for mutable accumulators the final objects of different lifetimes are distinct "
        "objects, mutating one leaves the others and the seed unchanged, and a second subscription gives the same result. Sub "
        "'derived' runs every operator defined through scan against its list definition per key. Non-trivial: >= 2 lifetimes, a "
        "mutable seed or a terminator, and a lifetime with >= 2 items.")
ASSUMPTIONS = [
    'accumulators return values of the seed type; ints stay inside 64 bits',
    'the pure re-implementations of the mutating accumulators are the specification of what they compute',
    'histories are well-formed; timestamps for time_split are non-decreasing',
]

# kind -> (real accumulator (may mutate), pure reference step, seed value factory, mutable?)


def _acc_append(a, x):
    a.append(x)
    return a


def _acc_dict(a, x):
    a[x % 3] = a.get(x % 3, 0) + 1
    return a


def _acc_nested(a, x):
    a[0].append(x)
    a[1] += 1
    return a


import enum


class Color(enum.IntEnum):
    R = 0
    G = 1
    B = 2


def _np():
    import numpy
    return numpy


def _term_mut(a):
    a.append('T')
    return a


ACCS = {
    'append_mt': (_acc_append, lambda a, x: a + [x], lambda: [], True),      # its terminator mutates the accumulator in place
    # a seed given by value that is a mutable buffer (bytearray): every key starts from a copy of it
    'bytearr': (lambda a, x: a + bytearray([x % 251]), lambda a, x: a + bytearray([x % 251]), lambda: bytearray(b'ab'), False),
    # a numpy vector as running value: comparing it with anything yields an array, not a bool
    'npvec': (lambda a, x: a + x, lambda a, x: a + x, lambda: _np().zeros(2), False),
    'isum_tn': (lambda a, x: a + x, lambda a, x: a + x, lambda: 0, False),
    # ints beyond 2**53 (nanosecond timestamps, 64-bit ids): exact in an int, not in a double
    'big_isum': (lambda a, x: a + x, lambda a, x: a + x, lambda: 2 ** 53 + 1, False),
    # a seed that is an instance of an int SUBCLASS: the running value must stay a Color
    'enum': (lambda a, x: Color((a.value + x) % 3), lambda a, x: Color((a.value + x) % 3), lambda: Color.G, False),
    'isum': (lambda a, x: a + x, lambda a, x: a + x, lambda: 0, False),
    'fsum': (lambda a, x: a + x * 0.1, lambda a, x: a + x * 0.1, lambda: 0.0, False),      # tenths: not representable in single precision
    'or': (lambda a, x: bool(a or x > 2), lambda a, x: bool(a or x > 2), lambda: False, False),
    'minmax': (lambda a, x: (min(a[0], x), max(a[1], x)), lambda a, x: (min(a[0], x), max(a[1], x)), lambda: (0, 0), False),
    'none_min': (lambda a, x: x if a is None or x < a else a, lambda a, x: x if a is None or x < a else a, lambda: None, False),
    'append': (_acc_append, lambda a, x: a + [x], lambda: [], True),
    # returns None for some items: None is then a legitimate running value, not 'no value yet'
    'maybe_none': (lambda a, x: None if x % 3 == 0 else (['n', x] if a is None else a + [x]),
                   lambda a, x: None if x % 3 == 0 else (['n', x] if a is None else a + [x]), lambda: ['seed'], False),
    'dict': (_acc_dict, lambda a, x: dict(list(a.items()) + [(x % 3, a.get(x % 3, 0) + 1)]), lambda: {}, True),
    'nested': (_acc_nested, lambda a, x: [a[0] + [x], a[1] + 1], lambda: [[], 0], True),
}
TERMS = {
    'append_mt': lambda a: a + ['T'],
    'bytearr': lambda a: bytes(a) + b'T',
    'npvec': lambda a: a * 2,
    'big_isum': lambda a: a - 1, 'enum': lambda a: a.name,
    # a terminator whose legitimate result is None for some keys ('no reading above the threshold')
    'isum_tn': lambda a: None if a % 2 == 0 else a,
    'isum': lambda a: a * 10 + 1, 'fsum': lambda a: a + 0.25, 'or': lambda a: not a, 'minmax': lambda a: (a[1], a[0]),
    'maybe_none': lambda a: ['T'] if a is None else a + ['T'],
    'none_min': lambda a: -1 if a is None else a + 100, 'append': lambda a: a + ['T'], 'dict': lambda a: dict(list(a.items()) + [('T', 1)]),
    'nested': lambda a: [a[0] + ['T'], a[1]],
}
# accumulators whose terminator leaves the seed's type (a None result): the state must be an object state, which scan declares
# when the seed is given as a factory (a typed array cannot hold the terminator's result -- stated precondition)
FACTORY_ONLY = {'isum_tn', 'npvec'}


def rec_tail(log, objs):
    """tail tap that also keeps the emitted objects themselves (identity checks)"""
    def _op(source):
        def on_subscribe(observer, scheduler):
            def on_next(i):
                t = type(i)
                if t is rs.OnNextMux:
                    log.append(('n', i.key, drive.snapshot(i.item), len(log)))
                    objs.append((i.key, i.item))
                elif t is rs.OnCreateMux:
                    log.append(('c', i.key, None, len(log)))
                elif t is rs.OnCompletedMux:
                    log.append(('d', i.key, None, len(log)))
                observer.on_next(i)
            return source.subscribe(on_next=on_next, on_completed=observer.on_completed, on_error=observer.on_error, scheduler=scheduler)
        return rs.MuxObservable(on_subscribe)
    return _op


@st.composite
def fold_case(draw):
    acc = draw(st.sampled_from(sorted(ACCS)))
    mono = draw(st.integers(0, 4)) == 0
    case = {
        'acc': acc, 'seed_as': draw(st.sampled_from(['value', 'factory', 'factory', 'partial', 'callable_obj'])), 'reduce': draw(st.booleans()),
        'term': draw(st.booleans()), 'prefilter': draw(st.one_of(st.none(), st.tuples(st.integers(2, 3), st.integers(0, 1)).map(list))),
        'tin': 'mono' if mono else 'int',
    }
    if draw(st.booleans()):
        case['driver'] = 'layers'
        case['layers'] = [draw(c02.layer(mono)) for _ in range(draw(st.sampled_from([0, 1, 1, 2])))]
        n0 = draw(st.sampled_from([0, 2, 5, 8]))
        if mono:
            items = draw(gen.mono_items(16))
            items = (items + [items[-1] + d for d in range(max(0, n0 - len(items)))]) if items else list(range(n0))
        else:
            items = draw(st.lists(st.integers(-8, 8), min_size=n0, max_size=16))
        case['items'] = items
    else:
        case['driver'] = 'raw'
        nl = draw(st.integers(1, 6))
        case['lifetimes'] = [[draw(st.sampled_from(c02.SLOTS)), draw(gen.mono_items(6) if mono else gen.int_items(6))] for _ in range(nl)]
        total = sum(len(l[1]) + 2 for l in case['lifetimes'])
        case['sched'] = draw(st.lists(st.integers(0, 4), min_size=total, max_size=total))
    return case


def make_scan(case, term_log):
    real, pure, seedf, mutable = ACCS[case['acc']]
    seed_obj = seedf()
    if case['seed_as'] == 'value' and case['acc'] not in FACTORY_ONLY:
        seed = seed_obj
    elif case['seed_as'] == 'value':
        seed = seedf
    elif case['seed_as'] == 'partial':
        import functools
        seed = functools.partial(lambda f: f(), seedf)         # a callable that is neither a function nor a class
    elif case['seed_as'] == 'callable_obj':
        class _Factory(object):
            def __call__(self):
                return seedf()
        seed = _Factory()
    else:
        seed = seedf
    term = None
    if case['term']:
        tf = TERMS[case['acc']]

        tf_real = {'append_mt': _term_mut}.get(case['acc'], tf)      # the real terminator may mutate; TERMS holds the pure definition

        def term(a):
            term_log.append(drive.snapshot(a))
            return tf_real(a)
    return rs.ops.scan(real, seed, reduce=case['reduce'], terminator=term), seed_obj


def expected(case, items):
    """-> (outputs, terminator argument)"""
    _, pure, seedf, _ = ACCS[case['acc']]
    a = seedf()
    outs = []
    for x in items:
        a = pure(a, x)
        if not case['reduce']:
            outs.append(copy.deepcopy(a))
    targ = None
    if case['term']:
        targ = copy.deepcopy(a)
        a = TERMS[case['acc']](a)
        if not case['reduce']:
            outs.append(copy.deepcopy(a))
    if case['reduce']:
        outs.append(copy.deepcopy(a))
    return outs, targ


def run_fold(case, term_log, objs):
    scan, seed_obj = make_scan(case, term_log)
    head, tail = [], []
    pre = [rs.ops.filter(A.p_mod(*case['prefilter']))] if case['prefilter'] else []
    inner = pre + [drive.tap(head), scan, rec_tail(tail, objs)]
    if case['driver'] == 'layers':
        r = drive.store(case['items'], c02.wrap(case['layers'], inner))
    else:
        r = drive.rawmux(c03.raw_events(case), inner)
    return r, head, tail, seed_obj


def check_fold(case):
    ctx = dict(case)
    term_log, objs = [], []
    r, head, tail, seed_obj = run_fold(case, term_log, objs)
    H.require_clean(r, 'scan run', **ctx)
    pairs = c02.pair_lifetimes(head, tail, ctx)
    texp = []
    finals = []
    for h, t in pairs:
        exp, targ = expected(case, h['items'])
        if not cmp.same_seq(t['items'], exp, approx=False):
            raise Violation('scan output of a key lifetime differs from the left fold from a fresh seed', lifetime_items=h['items'],
                            key=h['key'], expected=exp, got=t['items'], **ctx)
        if case['reduce'] and len(t['items']) != 1:
            raise Violation('reduce emitted %d items for one key lifetime' % len(t['items']), **ctx)
        if case['term']:
            texp.append(targ)
        finals.append(exp[-1] if exp else None)
    if case['term'] and not cmp.same_bag(term_log, texp, approx=False):
        raise Violation('terminator calls differ: expected exactly one per lifetime with the last fold', expected=texp, got=term_log, **ctx)
    # (c) metamorphic: reduce <-> streaming on the same history
    other = dict(case, reduce=not case['reduce'])
    tl2, ob2 = [], []
    r2, head2, tail2, _ = run_fold(other, tl2, ob2)
    H.require_clean(r2, 'scan run (reduce flipped)', **ctx)
    pairs2 = c02.pair_lifetimes(head2, tail2, ctx)
    for (h, t), (h2, t2) in zip(pairs, pairs2):
        a, b = (t, t2) if case['reduce'] else (t2, t)      # a: reduce run, b: streaming run
        if not h['items'] and not case['term']:
            continue
        if b['items'] and not cmp.same(a['items'][-1], b['items'][-1], approx=False):
            raise Violation('last streaming value != reduce value', lifetime_items=h['items'], reduce_output=a['items'], streaming_output=b['items'], **ctx)
    # (e) isolation
    mutable = ACCS[case['acc']][3]
    if mutable:
        fresh = ACCS[case['acc']][2]()
        if not cmp.same(seed_obj, fresh, approx=False):
            raise Violation('the seed object passed to scan was modified', seed_now=seed_obj, **ctx)
        last_obj = {}
        order = []
        for key, o in objs:
            pass
        # final object per lifetime = last object emitted before that lifetime's completion
        per_lt = []
        pos = 0
        live = {}
        seq = iter(objs)
        for kind, key, item, _t in tail:
            if kind == 'c':
                live[key] = None
            elif kind == 'n':
                k, o = next(seq)
                live[key] = o
            elif kind == 'd':
                o = live.pop(key, None)
                if o is not None:
                    per_lt.append(o)
        for i in range(len(per_lt)):
            if per_lt[i] is seed_obj:
                raise Violation('a key emitted the shared seed object itself', **ctx)
            for j in range(i + 1, len(per_lt)):
                if per_lt[i] is per_lt[j]:
                    raise Violation('two key lifetimes share one accumulator object', **ctx)
        if len(per_lt) >= 2:
            snaps = [copy.deepcopy(o) for o in per_lt]
            victim = per_lt[0]
            if isinstance(victim, dict):
                victim['poison'] = 1
            elif isinstance(victim, list):
                if victim and isinstance(victim[0], list):
                    victim[0].append('poison')
                victim.append('poison')
            for o, s in list(zip(per_lt, snaps))[1:]:
                if not cmp.same(o, s, approx=False):
                    raise Violation('mutating the accumulator of one key changed another key\'s', **ctx)
            if not cmp.same(seed_obj, fresh, approx=False):
                raise Violation('mutating the accumulator of one key changed the seed', **ctx)
    nlt = len(pairs)
    labels = ['acc:' + case['acc'], 'seed:' + case['seed_as'], 'reduce' if case['reduce'] else 'stream', 'term' if case['term'] else 'noterm',
              'driver:' + (case['driver'] if case['driver'] == 'raw' else '+'.join(l[0] for l in case['layers']) or 'store')]
    if any(not h['items'] for h, _ in pairs):
        labels.append('empty-lifetime')
    slots = {}
    for h, _ in pairs:
        slots[h['key'][0]] = slots.get(h['key'][0], 0) + 1
    if any(v >= 2 for v in slots.values()):
        labels.append('slot-reuse')
    nt = nlt >= 2 and (mutable or case['term']) and any(len(h['items']) >= 2 for h, _ in pairs)
    return {'nontrivial': nt, 'labels': labels}


# ---------------------------------------------------------------- second subscription

@st.composite
def resub_case(draw):
    return {'acc': draw(st.sampled_from(sorted(ACCS))), 'seed_as': draw(st.sampled_from(['value', 'factory', 'partial', 'callable_obj'])),
            'reduce': draw(st.booleans()), 'term': draw(st.booleans()), 'items': draw(gen.int_items(8)),
            'mode': draw(st.sampled_from(['plain', 'store', 'hot2']))}


def check_resub(case):
    tl = []
    scan, seed_obj = make_scan(case, tl)
    exp, _ = expected(case, case['items'])
    if case['mode'] == 'hot2':
        # one piped plain observable, two subscribers alive at the same time: each has its own fold
        for n, r in enumerate(drive.two_subscribers(case['items'], scan)):
            H.require_clean(r, 'subscriber %d of one piped scan observable' % n, **case)
            if not cmp.same_seq(r.items, exp, approx=False):
                raise Violation('subscriber %d of the same piped scan observable does not see the fold of the items' % n,
                                expected=exp, got=r.items, **case)
        return {'nontrivial': len(case['items']) >= 2, 'labels': ['acc:' + case['acc'], 'hot2', 'seed:' + case['seed_as']]}
    for n in (1, 2):
        if case['mode'] == 'plain':
            r = drive.collect(rx.from_(list(case['items'])).pipe(scan))
        else:
            r = drive.store(case['items'], [scan])
        H.require_clean(r, 'subscription %d' % n, **case)
        if not cmp.same_seq(r.items, exp, approx=False):
            raise Violation('subscription %d of the same scan operator differs from the fold from the original seed' % n,
                            expected=exp, got=r.items, **case)
    return {'nontrivial': ACCS[case['acc']][3] and len(case['items']) >= 2, 'labels': ['acc:' + case['acc'], case['mode'], 'seed:' + case['seed_as']]}


# ---------------------------------------------------------------- re-entrant delivery

@st.composite
def reentrant_case(draw):
    return {'acc': draw(st.sampled_from(['isum', 'fsum', 'minmax', 'append', 'maybe_none'])), 'items': draw(st.lists(st.integers(-8, 8), min_size=1, max_size=8)),
            'inject_at': draw(st.integers(0, 7)), 'inject': draw(st.integers(-8, 8)), 'grouped': draw(st.booleans()),
            'plain': draw(st.integers(0, 2)) == 0}


def check_reentrant(case):
    """A schedule in which the next item of a key arrives while the previous running value is still being delivered (the
    consumer feeds the source from inside its on_next: a feedback loop).  The fold must already contain the previous item."""
    from rx.subject import Subject
    real, pure, seedf, _ = ACCS[case['acc']]
    subject = Subject()
    scan = rs.ops.scan(real, seedf)
    ops = [rs.ops.group_by(lambda i: 0, [scan])] if case['grouped'] else [scan]
    got = []
    state = {'n': 0, 'err': None, 'done': 0}

    def on_next(v):
        got.append(drive.snapshot(v))
        state['n'] += 1
        if state['n'] == case['inject_at'] + 1:
            subject.on_next(case['inject'])          # re-entrant push

    piped = subject.pipe(scan) if case.get('plain') else subject.pipe(rs.state.with_memory_store(ops))      # plain: scan on a plain Observable
    piped.subscribe(on_next=on_next, on_error=lambda e: state.update(err=e),
                                                           on_completed=lambda: state.update(done=state['done'] + 1))
    order = []
    try:
        for k, x in enumerate(case['items']):
            order.append(x)
            before = state['n']
            subject.on_next(x)
            if before <= case['inject_at'] < state['n'] and len(order) == k + 1 + 0:
                pass
        subject.on_completed()
    except Exception as e:
        raise Violation('exception escaped a re-entrant push: %r' % (e,), **case)
    if state['err'] is not None or state['done'] != 1:
        raise Violation('re-entrant schedule: stream failed or did not complete', error=repr(state['err']), **case)
    # the order in which items reach the fold: the injected one directly after the item whose output triggered it
    seq = []
    for k, x in enumerate(case['items']):
        seq.append(x)
        if k == case['inject_at']:
            seq.append(case['inject'])
    a = seedf()
    exp = []
    for x in seq:
        a = pure(a, x)
        exp.append(copy.deepcopy(a))
    if not cmp.same_seq(got, exp, approx=False):
        raise Violation('running folds under a re-entrant schedule differ from the fold of the items in arrival order',
                        arrival_order=seq, expected=exp, got=got, **case)
    return {'nontrivial': case['inject_at'] < len(case['items']), 'labels': ['acc:' + case['acc'], 'plain' if case.get('plain') else 'grouped' if case['grouped'] else 'root']}


# ---------------------------------------------------------------- operators defined through scan

DERIVED = [['count', False], ['count', True], ['sum', False], ['sum', True], ['mean', False], ['mean', True], ['min', False], ['min', True],
           ['max', False], ['max', True], ['variance', False], ['variance', True], ['stddev', True], ['fvariance', False], ['fstddev', True],
           ['to_list'], ['to_list_ll'], ['to_array'], ['to_array', 'd'], ['to_array', 'u'], ['to_array', 'i'], ['batch', 1], ['batch', 2], ['batch', 3], ['duc', 0], ['duc', 2], ['progress', 1], ['progress', 2],
           ['progress', 3], ['dist', False], ['dist', True]]


@st.composite
def derived_case(draw):
    node = draw(st.sampled_from(DERIVED))
    mono = False
    case = {'node': node, 'tin': 'int'}
    if draw(st.booleans()):
        case['driver'] = 'layers'
        case['layers'] = [draw(c02.layer(mono)) for _ in range(draw(st.sampled_from([0, 1, 1, 2])))]
        case['items'] = draw(st.lists(st.integers(-8, 8), min_size=draw(st.sampled_from([0, 2, 5, 8])), max_size=16))
    else:
        case['driver'] = 'raw'
        nl = draw(st.integers(1, 6))
        case['lifetimes'] = [[draw(st.sampled_from(c02.SLOTS)), draw(gen.int_items(6))] for _ in range(nl)]
        total = sum(len(l[1]) + 2 for l in case['lifetimes'])
        case['sched'] = draw(st.lists(st.integers(0, 4), min_size=total, max_size=total))
    return case


def dist_key(d):
    return (list(d.bins), d.min, d.max)


def check_derived(case):
    node = case['node']
    ctx = dict(case)
    head, tail = [], []
    if node[0] == 'dist':
        op = rs.math.dist.update(bin_count=4, reduce=node[1])
        fin = [rs.ops.map(dist_key)]
    else:
        op = A.KINDS[node[0]].build(node, A.Env())
        fin = []
    inner = [drive.tap(head), op] + fin + [drive.tap(tail)]
    if case['driver'] == 'layers':
        r = drive.store(case['items'], c02.wrap(case['layers'], inner))
    else:
        r = drive.rawmux(c03.raw_events(case), inner)
    pairs = None
    # mean(reduce) of an empty lifetime is 0/0: decided on the observed lifetimes before judging the run
    hl = drive.lifetimes_of(head)
    if node == ['mean', True] and any(not l['items'] for l in hl):
        raise Reject()
    H.require_clean(r, 'derived operator run', **ctx)
    pairs = c02.pair_lifetimes(head, tail, ctx)
    printed = []
    for h, t in pairs:
        xs = h['items']
        if node[0] == 'dist':
            d = distogram.Distogram(bin_count=4)
            exp = []
            for x in xs:
                d = distogram.update(d, x)
                if not node[1]:
                    exp.append(dist_key(d))
            if node[1]:
                exp.append(dist_key(d))
        else:
            mctx = M.MCtx('mux')
            exp = [v for _, v in M.run(M.Chain(mctx, [A.KINDS[node[0]].model(node, mctx)]), xs)]
            printed += mctx.printed
        if not cmp.same_seq(t['items'], exp, approx=True):
            raise Violation('%s differs from its list definition on a key lifetime' % node[0], lifetime_items=xs, expected=exp,
                            got=t['items'], **ctx)
    if node[0] == 'progress':
        got = [l for l in r.stdout.splitlines() if l.strip()]
        if sorted(got) != sorted(printed):
            raise Violation('progress printed other counter lines than k*threshold', expected=sorted(printed), got=sorted(got), **ctx)
    labels = ['op:' + node[0] + (':reduce' if len(node) > 1 and node[1] is True else ''),
              'driver:' + (case['driver'] if case['driver'] == 'raw' else '+'.join(l[0] for l in case['layers']) or 'store')]
    slots = {}
    for h, _ in pairs:
        slots[h['key'][0]] = slots.get(h['key'][0], 0) + 1
    if any(v >= 2 for v in slots.values()):
        labels.append('slot-reuse')
    return {'nontrivial': len(pairs) >= 2 and any(len(h['items']) >= 2 for h, _ in pairs), 'labels': labels}


def subs(tier):
    return [
        Sub('fold', check_fold, gen=fold_case, examples={'quick': 2000, 'thorough': 200000},
            doc='scan with generated accumulator/seed/reduce/terminator per key lifetime vs pure left fold; metamorphic reduce<->stream; isolation'),
        Sub('resubscribe', check_resub, gen=resub_case, examples={'quick': 600, 'thorough': 30000},
            doc='two subscriptions of the same scan operator both start from the original seed (plain and multiplexed)'),
        Sub('reentrant', check_reentrant, gen=reentrant_case, examples={'quick': 500, 'thorough': 30000},
            doc='the next item of a key is pushed from inside the delivery of the previous running value (feedback loop)'),
        Sub('derived', check_derived, gen=derived_case, examples={'quick': 2000, 'thorough': 150000},
            doc='count, sum, mean, min, max, variance, stddev, formal.*, to_list, to_array, batch, distinct_until_changed, progress, dist.update vs list definitions per key lifetime'),
    ]
