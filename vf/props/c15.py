"""C15 — framing round-trips under any re-chunking of the framed stream."""
import rx
from hypothesis import strategies as st

import rxsci.framing.line as line
import rxsci.framing.length_prefix as lp

from vf.core import Sub, Violation
from vf import drive, harness as H

PID = 'C15'
LEVEL = 'exploration'
RULE = ("Hypothesis-generated item lists (empty items, items containing newline / prefix-looking bytes) are framed with the "
        "real frame(), concatenated, cut at generated positions (repeated cuts = empty chunks) and unframed; sub 'lp_allcuts'/"
        "'line_allcuts' enumerate every 2-cut chunking of the stream, 'lp_trunc' every truncation point. Non-trivial: >= 2 items "
        "and a cut strictly inside a prefix, a payload or a line. Distinct = distinct canonical JSON of the case.")
ASSUMPTIONS = [
    'length-prefixed items are shorter than 2**(8*prefix_size) (frame() rejects others)',
    'line-framed items contain no newline character',
    'rx.from_ delivers the chunks synchronously in order',
]

from vf.gen import weighted_text
TEXT = weighted_text(st.one_of(
    st.sampled_from(list('ab \r\t"\\,\x00') + [chr(0xe9), chr(0x2028), chr(0x85), chr(0x1F600)]),
    st.characters(blacklist_characters='\n', blacklist_categories=('Cs',))), max_size=12)


def chunk(stream, cuts):
    pos = [0] + sorted(min(c, len(stream)) for c in cuts) + [len(stream)]
    return [stream[a:b] for a, b in zip(pos, pos[1:])]


def h2b(x):
    return bytes.fromhex(x)


# ---------------------------------------------------------------- line

@st.composite
def line_case(draw):
    items = draw(st.lists(TEXT, max_size=8))
    tail = draw(st.one_of(st.just(''), st.just(''), TEXT))
    n = sum(len(i) + 1 for i in items) + len(tail)
    cuts = draw(st.lists(st.integers(0, n), max_size=8))
    return {'items': items, 'tail': tail, 'cuts': sorted(cuts)}


def _frame_lines(items):
    r = drive.collect(rx.from_(items).pipe(line.frame()))
    if not r.ok:
        raise Violation('line.frame failed', result=r.brief())
    # only the CONCATENATION of what frame() emits is specified (one output per item is not): returned as one piece
    return [''.join(r.items)]


def _check_line_stream(items, tail, stream, cuts):
    chunks = chunk(stream, cuts)
    r = drive.collect(rx.from_(chunks).pipe(line.unframe()))
    expected = list(items) + ([tail] if tail else [])
    if r.error is not None or r.raised is not None:
        raise Violation('line.unframe signalled an error', result=r.brief(), chunks=chunks)
    if r.completed != 1 or r.after_end:
        raise Violation('line.unframe did not complete exactly once', result=r.brief())
    if r.items != expected:
        raise Violation('line round trip differs', expected=expected, got=r.items, chunks=chunks)


def _inside_line(items, tail, cuts):
    bounds = set()
    p = 0
    for i in items:
        p += len(i) + 1
        bounds.add(p)
    total = p + len(tail)
    return any(0 < c < total and c not in bounds for c in cuts)


def check_line(case):
    items, tail, cuts = case['items'], case['tail'], case['cuts']
    frames = _frame_lines(items)
    stream = ''.join(frames) + tail
    _check_line_stream(items, tail, stream, cuts)
    labels = []
    if tail:
        labels.append('unterminated-tail')
    if len(set(cuts)) < len(cuts):
        labels.append('empty-chunk')
    if '' in items:
        labels.append('empty-item')
    inside = _inside_line(items, tail, cuts)
    if inside:
        labels.append('cut-inside')
    return {'nontrivial': inside and len(items) + (1 if tail else 0) >= 2, 'labels': labels}


def check_line_allcuts(case):
    items, tail = case['items'], case['tail']
    stream = ''.join(_frame_lines(items)) + tail
    n = len(stream)
    for a in range(n + 1):
        for b in range(a, n + 1):
            _check_line_stream(items, tail, stream, [a, b])
    return {'nontrivial': len(items) >= 2 and n >= 4, 'labels': ['pairs=%d' % min(300, (n + 1) * (n + 2) // 2 // 50 * 50)]}


@st.composite
def line_small_case(draw):
    items = draw(st.lists(st.text(alphabet='ab\r ', max_size=4), max_size=5))
    tail = draw(st.one_of(st.just(''), st.text(alphabet='ab', max_size=3)))
    return {'items': items, 'tail': tail}


# ---------------------------------------------------------------- length prefix

BYTES = st.one_of(
    st.binary(max_size=12),
    st.lists(st.sampled_from([0, 1, 2, 3, 4, 8, 10, 255]), max_size=10).map(bytes),
)


@st.composite
def lp_case(draw, max_items=8, with_cuts=True, small=False):
    p = draw(st.sampled_from([1, 2, 4, 8]))
    order = draw(st.sampled_from(['little', 'big']))
    if small:
        items = draw(st.lists(st.binary(max_size=4), max_size=3))
    else:
        items = draw(st.lists(BYTES, max_size=max_items))
        if with_cuts and p == 1 and draw(st.integers(0, 9)) == 0:
            # boundary: the largest payload a 1-byte prefix can describe
            items.insert(draw(st.integers(0, len(items))), bytes(range(255)))
        if with_cuts and p == 2 and draw(st.integers(0, 19)) == 0:
            items.insert(draw(st.integers(0, len(items))), bytes(i % 251 for i in range(draw(st.sampled_from([256, 300, 65535])))))
    n = sum(len(i) + p for i in items)
    case = {'items': [i.hex() for i in items], 'prefix': p, 'order': order, 'ctype': draw(st.sampled_from(['bytes', 'bytes', 'bytearray', 'recycled']))}
    if with_cuts:
        case['cuts'] = sorted(draw(st.lists(st.integers(0, n), max_size=8)))
        case['trunc'] = draw(st.one_of(st.none(), st.none(), st.integers(0, n)))
    return case


def _frame_lp(items, p, order):
    r = drive.collect(rx.from_(items).pipe(lp.frame(prefix_size=p, byteorder=order)))
    if not r.ok:
        raise Violation('length_prefix.frame failed', result=r.brief())
    # only the CONCATENATION of what frame() emits is specified; the format fixes the size of each frame inside it
    full = b''.join(r.items)
    if len(full) != sum(len(i) + p for i in items):
        raise Violation('the framed stream has %d bytes, the items + prefixes have %d' % (len(full), sum(len(i) + p for i in items)))
    frames, q = [], 0
    for i in items:
        frames.append(full[q:q + len(i) + p])
        q += len(i) + p
    return frames


CTYPE = ['bytes']        # how the byte chunks are handed to unframe (set per case)


def _check_lp_stream(items, frames, stream, cuts, p, order):
    """stream may be a truncation of concat(frames)."""
    expected = []
    used = 0
    for i, f in zip(items, frames):
        if used + len(f) <= len(stream):
            expected.append(i)
            used += len(f)
        else:
            break
    chunks = chunk(stream, cuts)
    if CTYPE[0] == 'bytearray':
        r = drive.collect(rx.from_([bytearray(c) for c in chunks]).pipe(lp.unframe(prefix_size=p, byteorder=order)))
    elif CTYPE[0] == 'recycled':
        # the chunks are views of ONE receive buffer that is overwritten as soon as the chunk has been handed over (recv_into):
        # the items that come out must not alias it
        from rx.subject import Subject
        src = Subject()
        r = drive.collect(src.pipe(lp.unframe(prefix_size=p, byteorder=order)), snap=False)
        buf = bytearray(max([len(c) for c in chunks] + [1]))
        for c in chunks:
            buf[:len(c)] = c
            src.on_next(memoryview(buf)[:len(c)])
            buf[:] = b'\xaa' * len(buf)
        src.on_completed()
        r.items = [bytes(i) for i in r.items]
    else:
        r = drive.collect(rx.from_(chunks).pipe(lp.unframe(prefix_size=p, byteorder=order)))
    if r.error is not None or r.raised is not None:
        raise Violation('length_prefix.unframe signalled an error', result=r.brief(), chunks=chunks)
    if r.completed != 1 or r.after_end:
        raise Violation('length_prefix.unframe did not complete exactly once', result=r.brief())
    if r.items != expected:
        raise Violation('length-prefix round trip differs', expected=expected, got=r.items, chunks=chunks,
                        truncated=len(stream) != sum(len(f) for f in frames))


def check_lp(case):
    CTYPE[0] = case.get('ctype', 'bytes')
    items = [h2b(i) for i in case['items']]
    p, order = case['prefix'], case['order']
    frames = _frame_lp(items, p, order)
    full = b''.join(frames)
    stream = full if case.get('trunc') is None else full[:case['trunc']]
    cuts = case['cuts']
    _check_lp_stream(items, frames, stream, cuts, p, order)
    bounds = set()
    q = 0
    for f in frames:
        q += len(f)
        bounds.add(q)
    inside = any(0 < c < len(stream) and c not in bounds for c in cuts)
    in_prefix = False
    q = 0
    for f in frames:
        if any(q < c < q + p for c in cuts if c < len(stream)):
            in_prefix = True
        q += len(f)
    labels = ['p=%d' % p, order]
    if inside:
        labels.append('cut-inside')
    if in_prefix:
        labels.append('cut-in-prefix')
    if case.get('trunc') is not None and len(stream) < len(full):
        labels.append('truncated')
    if len(set(cuts)) < len(cuts):
        labels.append('empty-chunk')
    if b'' in items:
        labels.append('empty-item')
    return {'nontrivial': inside and len(items) >= 2, 'labels': labels}


def check_lp_allcuts(case):
    CTYPE[0] = case.get('ctype', 'bytes')
    items = [h2b(i) for i in case['items']]
    p, order = case['prefix'], case['order']
    frames = _frame_lp(items, p, order)
    stream = b''.join(frames)
    n = len(stream)
    if n > 40:
        stream = stream[:40]
        n = 40
    for a in range(n + 1):
        for b in range(a, n + 1):
            _check_lp_stream(items, frames, stream, [a, b], p, order)
    return {'nontrivial': len(items) >= 2, 'labels': ['p=%d' % p]}


def check_lp_trunc(case):
    CTYPE[0] = 'bytes'
    items = [h2b(i) for i in case['items']]
    p, order = case['prefix'], case['order']
    frames = _frame_lp(items, p, order)
    full = b''.join(frames)
    for t in range(len(full) + 1):
        _check_lp_stream(items, frames, full[:t], [t // 2], p, order)
        _check_lp_stream(items, frames, full[:t], list(range(1, t)), p, order)
    return {'nontrivial': len(items) >= 2, 'labels': ['p=%d' % p]}


@st.composite
def conc_case(draw):
    n = draw(st.integers(2, 3))
    kind = draw(st.sampled_from(['line', 'lp']))
    p = draw(st.sampled_from([1, 2, 4]))
    streams = []
    for _ in range(n):
        if kind == 'line':
            items = draw(st.lists(TEXT, max_size=5))
            total = sum(len(i) + 1 for i in items)
        else:
            items = [b.hex() for b in draw(st.lists(BYTES, max_size=5))]
            total = sum(len(i) // 2 + p for i in items)
        streams.append({'items': items, 'cuts': sorted(draw(st.lists(st.integers(0, total), max_size=6)))})
    return {'kind': kind, 'prefix': p, 'streams': streams, 'sched': draw(st.lists(st.integers(0, 5), max_size=30)),
            'shared_op': draw(st.booleans())}


def check_concurrent(case):
    """Several unframe subscriptions alive at once with interleaved chunks: the carry-over buffers are per subscription."""
    ctx = dict(case)
    kind, p = case['kind'], case['prefix']
    chunk_lists, wanted = [], []
    for s_ in case['streams']:
        if kind == 'line':
            items = s_['items']
            stream = ''.join(_frame_lines(items))
        else:
            items = [h2b(i) for i in s_['items']]
            stream = b''.join(_frame_lp(items, p, 'little'))
        wanted.append(items)
        chunk_lists.append(chunk(stream, s_['cuts']))
    shared = line.unframe() if kind == 'line' else lp.unframe(prefix_size=p, byteorder='little')
    fresh = (lambda k: line.unframe()) if kind == 'line' else (lambda k: lp.unframe(prefix_size=p, byteorder='little'))
    rs_ = drive.interleaved(chunk_lists, (lambda k: shared) if case['shared_op'] else fresh, case['sched'])
    for k, r in enumerate(rs_):
        if r.error is not None or r.raised is not None or r.completed != 1:
            raise Violation('unframe of stream %d (of %d concurrent ones) failed' % (k, len(rs_)), result=r.brief(), **ctx)
        if r.items != wanted[k]:
            raise Violation('stream %d unframed concurrently with others differs from its items' % k, expected=wanted[k], got=r.items, **ctx)
    # ONE piped observable with two subscribers alive at once: each subscription has its own carry-over buffer
    for n, r in enumerate(drive.two_subscribers(chunk_lists[0], fresh(0))):
        if r.error is not None or r.raised is not None or r.completed != 1 or r.items != wanted[0]:
            raise Violation('subscriber %d of one piped unframe observable differs from its items' % n, expected=wanted[0], result=r.brief(), **ctx)
    return {'nontrivial': sum(1 for w in wanted if len(w) >= 2) >= 2, 'labels': [kind, 'shared-op' if case['shared_op'] else 'own-op']}


def lp_many_enum(tier):
    """thousands of small frames: in ONE chunk (reader-side buffers of 8 KiB are passed many times), and in fixed-size chunks that
    never end on a frame boundary (a carry-over that is never empty for hundreds of KB)"""
    for p in (1, 2, 4, 8):
        for order in ('little', 'big'):
            yield {'prefix': p, 'order': order, 'n': 1500, 'size': 5, 'chunk': 0}
            yield {'prefix': p, 'order': order, 'n': 2000, 'size': 101 - p, 'chunk': 1000}
            if p > 1:
                yield {'prefix': p, 'order': order, 'n': 700, 'size': 300, 'chunk': 0, 'cut_in_prefix': 3 * (300 + p) + p // 2}


def check_lp_many(case):
    p, order = case['prefix'], case['order']
    items = [bytes([(j * 7 + k) % 251 for k in range(case['size'])]) for j in range(case['n'])]
    CTYPE[0] = 'bytes'
    frames = _frame_lp(items, p, order)
    stream = b''.join(frames)
    chunks = [stream] if not case['chunk'] else [stream[a:a + case['chunk']] for a in range(0, len(stream), case['chunk'])]
    if case.get('cut_in_prefix'):
        # the first chunk ends INSIDE a length prefix, the second one is much longer than 64 KiB
        chunks = [stream[:case['cut_in_prefix']], stream[case['cut_in_prefix']:]]
    r = drive.collect(rx.from_(chunks).pipe(lp.unframe(prefix_size=p, byteorder=order)))
    H.require_clean(r, 'length_prefix.unframe', **case)
    if r.items != items:
        first = next((j for j, (a, b) in enumerate(zip(r.items, items)) if a != b), min(len(r.items), len(items)))
        raise Violation('length-prefix round trip of %d small frames differs' % len(items), items_out=len(r.items), first_difference_at=first, **case)
    return {'nontrivial': True, 'labels': ['p=%d' % p, order, 'one-chunk' if not case['chunk'] else 'fixed-chunks']}


def subs(tier):
    return [
        Sub('lp_many', check_lp_many, enum=lp_many_enum, doc='1500-2000 small frames in one chunk / in fixed 1000-byte chunks, every prefix size and byte order'),
        Sub('line', check_line, gen=line_case, examples={'quick': 3000, 'thorough': 300000},
            doc='line frame -> concat (+unterminated tail) -> arbitrary chunking -> unframe == items'),
        Sub('line_allcuts', check_line_allcuts, gen=line_small_case, examples={'quick': 150, 'thorough': 6000},
            doc='every 2-cut chunking of small line streams'),
        Sub('lp', check_lp, gen=lp_case, examples={'quick': 3000, 'thorough': 300000},
            doc='length-prefix frame -> concat -> optional truncation -> arbitrary chunking -> unframe == complete frames'),
        Sub('lp_allcuts', check_lp_allcuts, gen=lambda: lp_case(with_cuts=False, small=True),
            examples={'quick': 150, 'thorough': 6000}, doc='every 2-cut chunking of small length-prefixed streams'),
        Sub('lp_trunc', check_lp_trunc, gen=lambda: lp_case(with_cuts=False, max_items=4),
            examples={'quick': 150, 'thorough': 6000},
            doc='every truncation point: only complete frames are delivered, fed whole / in two / byte by byte'),
        Sub('concurrent', check_concurrent, gen=conc_case, examples={'quick': 600, 'thorough': 40000},
            doc='2-3 unframe subscriptions alive at once (own or shared operator objects), chunks delivered interleaved'),
    ] + ([] if tier != 'thorough' else [
        Sub('fuzz_line', check_line, fuzz='c15_line', fuzz_runs={'thorough': 960000},
            doc='atheris/libFuzzer coverage-guided campaign on line framing (same case format and oracle as sub line)'),
        Sub('fuzz_lp', check_lp, fuzz='c15_lp', fuzz_runs={'thorough': 960000},
            doc='atheris/libFuzzer coverage-guided campaign on length-prefix framing (same oracle as sub lp)'),
    ])
