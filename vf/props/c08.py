"""C08 — tee_map equals running each branch independently and joining the results."""
from hypothesis import strategies as st
import rxsci as rs

from vf.core import Sub, Violation, Reject
from vf import ast as A, gen, drive, cmp, harness as H, model as M
from vf.props import c02

PID = 'C08'
LEVEL = 'exploration'
RULE = ("Hypothesis draws 2..4 branch pipelines (streaming, filtering, reducing, nested windows and nested tees), a join mode and an "
        "input. Every branch is run ALONE with the real code between two taps: the head tap numbers the events entering the branch "
        "(each item, then the completion), the tail tap stamps every output with the number of the event being processed (sound "
        "because rxsci is synchronous). Ordering all branch outputs by (event, branch index, emission order) and applying the join "
        "rule of the statement (merge / zip / combine_latest) gives the expected tee_map output, compared exactly with the real "
        "tee_map: on a multiplexed key alone, per key lifetime under group_by / roll / split / time_split (slot re-use), and on plain "
        "observables driven by a Subject (branches may complete early). Non-trivial: branches emit different numbers of items and "
        "(>= 3 branches or a reducing branch).")
ASSUMPTIONS = [
    'only the fan-out and the join are modelled; branches are the real code on both sides',
    'an output observed between the entry of event i and the entry of event i+1 was caused by event i (synchronous execution)',
    'first/last/mean(reduce) on an empty plain branch input raise by design: such cases are rejected by the reference model',
]

MUXB = gen.Opts(mux=True, max_depth=2, max_len=3, exact=True, weights={'item': 3, 'fold': 5, 'seq': 5, 'muxseq': 3, 'window': 3, 'tee': 2})
PLAINB = gen.Opts(mux=False, max_depth=1, max_len=3, exact=True, weights={'item': 3, 'fold': 5, 'seq': 6, 'tee': 2})


def join_rule(mode, n, tagged):
    """tagged: [(event, branch, seq, value)] -> expected tee_map output."""
    out = []
    latest = [None] * n
    has = [False] * n
    for _, b, _, v in sorted(tagged, key=lambda t: (t[0], t[1], t[2])):
        if mode == 'merge':
            out.append(v)
        elif mode == 'zip':
            latest[b] = v
            has[b] = True
            if all(has):
                out.append(tuple(latest))
                has = [False] * n
        else:
            latest[b] = v
            out.append(tuple(latest))
    return out


def ev_in(counter):
    def _op(source):
        def on_subscribe(observer, scheduler):
            def on_next(i):
                if type(i) in (rs.OnNextMux, rs.OnCompletedMux):
                    counter[0] += 1
                observer.on_next(i)
            return source.subscribe(on_next=on_next, on_completed=observer.on_completed, on_error=observer.on_error, scheduler=scheduler)
        return rs.MuxObservable(on_subscribe)
    return _op


def ev_out(counter, log):
    def _op(source):
        def on_subscribe(observer, scheduler):
            def on_next(i):
                if type(i) is rs.OnNextMux:
                    log.append((counter[0], len(log), drive.snapshot(i.item)))
                observer.on_next(i)
            return source.subscribe(on_next=on_next, on_completed=observer.on_completed, on_error=observer.on_error, scheduler=scheduler)
        return rs.MuxObservable(on_subscribe)
    return _op


def expected_mux(branches, join, items, ctx):
    tagged = []
    counts = []
    for b, bp in enumerate(branches):
        counter, log = [0], []
        r = drive.store(items, [ev_in(counter)] + A.build_pipeline(bp, A.Env()) + [ev_out(counter, log)])
        H.require_clean(r, 'branch %d alone' % b, branch=bp, lifetime_items=items, **ctx)
        tagged += [(e, b, s, v) for e, s, v in log]
        counts.append(len(log))
    return join_rule(join, len(branches), tagged), counts


@st.composite
def mux_case(draw, nested):
    mono = draw(st.integers(0, 3)) == 0
    tin = 'mono' if mono else 'int'
    nb = draw(st.sampled_from([2, 2, 3, 3, 4]))
    branches = [draw(gen.chain(tin, MUXB, MUXB.max_depth)) for _ in range(nb)]
    join = draw(st.sampled_from(['merge', 'zip', 'combine_latest']))
    layers = [draw(c02.layer(mono)) for _ in range(draw(st.sampled_from([1, 1, 2])))] if nested else []
    if nested and draw(st.integers(0, 3)) == 0:
        # several overlapping windows of several interleaved groups alive at once: key indexes are created with jumps (0, 2, 1, 3)
        s_ = draw(st.integers(1, 2))
        layers = [['group_by', draw(st.integers(2, 3))], ['roll', s_ + draw(st.integers(1, 3)), s_]]
    n0 = draw(st.sampled_from([0, 1, 4, 6])) if nested else 0
    if mono:
        items = draw(gen.mono_items(14))
        items = (items + [items[-1] + d for d in range(max(0, n0 - len(items)))]) if items else list(range(n0))
    else:
        items = draw(st.lists(st.integers(-8, 8), min_size=n0, max_size=14))
    return {'tin': tin, 'branches': branches, 'join': join, 'layers': layers, 'items': items}


LONG_BRANCHES = [[['filter_gt', 5]], [], [['scan_sum', False]], [['filter_mod', 2, 0]], [['take', 1]]]


@st.composite
def long_case(draw):
    """Hundreds of key lifetimes on ONE re-used slot, a branch that speaks in the first lifetime(s) and then stays silent for
    hundreds of them (per-slot join state must not come back after 255 / 256 / 512 ... resets)."""
    w = draw(st.sampled_from([1, 2]))
    if draw(st.integers(0, 4)) == 0:
        # ONE key of several hundred items: a streaming branch runs hundreds of items ahead of a reducing one
        items = [((j * 5) % 9) - 3 for j in range(draw(st.sampled_from([257, 300, 520])))]
        return {'tin': 'int', 'branches': [[], [['scan_sum', True]]] if draw(st.booleans()) else [[['scan_sum', True]], [], [['count', True]]],
                'join': draw(st.sampled_from(['zip', 'combine_latest'])), 'layers': [['group_by', 2]] if draw(st.booleans()) else [], 'items': items}
    if draw(st.integers(0, 3)) == 0:
        # a wide sliding window under two interleaved groups: the first key index a tee inside it sees is far from 0
        items = [((j * 3) % 7) - 2 for j in range(draw(st.sampled_from([60, 90])))]
        branches = [draw(st.sampled_from(LONG_BRANCHES[1:4])) for _ in range(2)]
        return {'tin': 'int', 'branches': branches, 'join': draw(st.sampled_from(['zip', 'combine_latest'])),
                'layers': [['group_by', 2], ['roll', draw(st.sampled_from([33, 40])), 1]], 'items': items}
    layer = draw(st.sampled_from([['roll', w, w], ['roll', w, w], ['split', 'mod', 2]]))
    n = draw(st.sampled_from([530, 700, 1100]))
    loud = draw(st.integers(1, 3))
    items = [9] * loud + [draw(st.sampled_from([0, 1]))] * 0 + [(j % 2) for j in range(n - loud)]
    nb = draw(st.sampled_from([2, 2, 3]))
    branches = [LONG_BRANCHES[0]] + [draw(st.sampled_from(LONG_BRANCHES[1:])) for _ in range(nb - 1)]
    if draw(st.booleans()):
        branches = branches[1:] + branches[:1]
    return {'tin': 'int', 'branches': branches, 'join': draw(st.sampled_from(['zip', 'zip', 'combine_latest'])), 'layers': [layer], 'items': items}


def check_mux(case):
    branches, join, items, layers = case['branches'], case['join'], case['items'], case['layers']
    tee_node = ['tee', join, branches]
    full = c02.wrap_ast(layers, [tee_node])
    c02.in_domain(full, items)
    ctx = {'branches': branches, 'join': join, 'layers': layers, 'items': items}
    head, tail = [], []
    ops = c02.wrap(layers, [drive.tap(head), A.KINDS['tee'].build(tee_node, A.Env()), drive.tap(tail)])
    r = drive.store(items, ops)
    H.require_clean(r, 'tee_map run', **ctx)
    pairs = c02.pair_lifetimes(head, tail, ctx)
    nontrivial = False
    slots = {}
    for h, t in pairs:
        exp, counts = expected_mux(branches, join, h['items'], ctx)
        if not cmp.same_seq(t['items'], exp, approx=False):
            raise Violation('tee_map output differs from the join of its branches run alone', lifetime_items=h['items'],
                            key=h['key'], expected=exp, got=t['items'], **ctx)
        if len(set(counts)) > 1 and (len(branches) >= 3 or any(A.pipeline_ct(b) for b in branches)):
            nontrivial = True
        slots.setdefault(h['key'][0], []).append(h['items'])
    reuse = any(len(v) >= 2 for v in slots.values())
    labels = ['join:' + join, 'branches=%d' % len(branches)] + (['parent:' + '+'.join(l[0] for l in layers)] if layers else ['parent:none'])
    labels += ['op:' + k for k in A.kinds_in([tee_node]) if k != 'tee']
    if any('tee' in A.kinds_in(b) for b in branches):
        labels.append('nested-tee')
    if reuse:
        labels.append('reuse')
    return {'nontrivial': nontrivial, 'labels': labels}


# ------------------------------------------------------------------ plain observables

@st.composite
def plain_case(draw):
    tin = 'int'
    nb = draw(st.sampled_from([2, 2, 3, 3, 4]))
    branches = [draw(gen.chain(tin, PLAINB, PLAINB.max_depth)) for _ in range(nb)]
    join = draw(st.sampled_from(['merge', 'zip', 'combine_latest']))
    items = draw(gen.int_items(12))
    return {'tin': tin, 'branches': branches, 'join': join, 'items': items, 'again': draw(st.booleans()), 'sync_src': draw(st.booleans())}


def check_plain(case):
    branches, join, items = case['branches'], case['join'], case['items']
    ctx = {'branches': branches, 'join': join, 'items': items}
    for bp in branches:
        mctx = M.MCtx('plain')
        try:
            M.run(A.model_chain(bp, mctx), items)
        except M.OutOfDomain:
            raise Reject()
        if mctx.empty_guard:
            raise Reject()
    tagged = []
    counts = []
    for b, bp in enumerate(branches):
        s = drive.stepped(items, lambda src: src.pipe(*A.build_pipeline(bp, A.Env())))
        H.require_clean(s.res, 'branch %d alone' % b, branch=bp, **ctx)
        tagged += [(step, b, n, v) for n, (step, v) in enumerate(s.out)]
        counts.append(len(s.out))
    exp = join_rule(join, len(branches), tagged)
    tee_node = ['tee', join, branches]
    tee_op = A.KINDS['tee'].build(tee_node, A.Env())
    s = drive.stepped(items, lambda src: src.pipe(tee_op))
    H.require_clean(s.res, 'plain tee_map', **ctx)
    if not cmp.same_seq(s.res.items, exp, approx=False):
        raise Violation('plain tee_map output differs from the join of its branches run alone', expected=exp, got=s.res.items, **ctx)
    if case.get('sync_src'):
        # a plain source that delivers everything synchronously while it is being subscribed (inline rx.create)
        r3 = drive.plain(items, [A.KINDS['tee'].build(tee_node, A.Env())], src='create')
        H.require_clean(r3, 'plain tee_map on a source that emits inside subscribe()', **ctx)
        if not cmp.same_seq(r3.items, exp, approx=False):
            raise Violation('plain tee_map on a source that emits inside subscribe() differs from the join of its branches run alone',
                            expected=exp, got=r3.items, **ctx)
    if case.get('again'):
        # the same operator OBJECT applied to a second source, after the first run is over (a new observable is built:
        # this is not a re-subscription)
        s2 = drive.stepped(items, lambda src: src.pipe(tee_op))
        H.require_clean(s2.res, 'plain tee_map operator applied to a second source', **ctx)
        if not cmp.same_seq(s2.res.items, exp, approx=False):
            raise Violation('the tee_map operator applied to a second source differs from the join of its branches run alone',
                            expected=exp, got=s2.res.items, **ctx)
    labels = ['join:' + join, 'branches=%d' % len(branches)] + ['op:' + k for k in A.kinds_in([tee_node]) if k != 'tee']
    if any(gen.has_early(b) for b in branches):
        labels.append('early-branch')
    nt = len(set(counts)) > 1 and (len(branches) >= 3 or any(A.pipeline_ct(b) for b in branches))
    return {'nontrivial': nt, 'labels': labels}


@st.composite
def describe_case(draw):
    # within ONE describe() the generated field names p<int(q*100)> must differ (namedtuple rejects duplicates: invalid
    # input); ACROSS describe() calls quantiles with the same name (0.99 / 0.995 / 0.999, 0.28 / 0.29) are legal
    qs = [draw(st.lists(st.sampled_from([0.1, 0.25, 0.28, 0.29, 0.5, 0.75, 0.9, 0.99, 0.999, 0.995, 1, 1.0, 0]), min_size=1, max_size=3,
                        unique_by=lambda v: int(v * 100)))
          for _ in range(draw(st.integers(1, 3)))]
    if draw(st.booleans()):
        # a second describe() whose quantiles differ from the first one's but truncate to the same field names
        twin = {0.99: 0.999, 0.999: 0.995, 0.995: 0.99, 0.28: 0.29, 0.29: 0.28, 1: 1.0, 1.0: 1}
        qs.append([twin.get(q, q) for q in qs[0]])
    xs = draw(st.lists(st.integers(-50, 200), min_size=4, max_size=40))
    return {'quantiles': qs, 'xs': xs, 'keyed': draw(st.booleans())}


def check_describe(case):
    """rs.math.dist.describe is a tee_map of metric operators: its tuples must equal running each metric on its own and
    zipping -- also when several describe() operators with different quantile lists are built in one process."""
    import distogram
    xs = [float(x) for x in case['xs']]
    descs = [rs.math.dist.describe(quantiles=q) for q in case['quantiles']]       # all constructed first
    h = distogram.Distogram(bin_count=20)
    for x in xs:
        h = distogram.update(h, x)
    for q, desc in zip(case['quantiles'], descs):
        want = [distogram.bounds(h)[0], distogram.bounds(h)[1], distogram.mean(h), distogram.stddev(h)] + [distogram.quantile(h, v) for v in q]
        pipe = [rs.math.dist.update(bin_count=20, reduce=True), desc]
        if case['keyed']:
            r = drive.store([(0, x) for x in xs], [rs.ops.group_by(lambda i: i[0], [rs.ops.map(lambda i: i[1])] + pipe)])
        else:
            r = drive.plain(xs, pipe)
        H.require_clean(r, 'describe', **case)
        if len(r.items) != 1 or not cmp.same_seq(list(r.items[0]), want, approx=True):
            raise Violation('describe(quantiles=%r) differs from its metrics computed separately' % (q,), expected=want,
                            got=[list(i) for i in r.items], **case)
        if list(r.items[0]._fields) != ['min', 'max', 'mean', 'stddev'] + ['p{}'.format(int(v * 100)) for v in q]:
            raise Violation('describe fields %r' % (r.items[0]._fields,), **case)
    names = [tuple('p{}'.format(int(v * 100)) for v in q) for q in case['quantiles']]
    return {'nontrivial': len(case['quantiles']) >= 2, 'labels': ['keyed' if case['keyed'] else 'plain'] + (['same-field-names'] if len(set(names)) < len(names) else [])}


def subs(tier):
    return [
        Sub('mux', check_mux, gen=lambda: mux_case(False), examples={'quick': 1200, 'thorough': 100000},
            doc='tee_map on one multiplexed key vs join of branches run alone (cause-tagged)'),
        Sub('nested', check_mux, gen=lambda: mux_case(True), examples={'quick': 1200, 'thorough': 100000},
            doc='the same per key lifetime under group_by / roll / split / time_split (1-2 levels; slot re-use)'),
        Sub('long', check_mux, gen=long_case, examples={'quick': 24, 'thorough': 600},
            doc='500-1100 key lifetimes on one re-used slot with a branch that falls silent after the first ones, vs branches run alone'),
        Sub('describe', check_describe, gen=describe_case, examples={'quick': 300, 'thorough': 20000},
            doc='rs.math.dist.describe (a tee_map of metric operators) == its metrics computed separately; several describe() per process'),
        Sub('plain', check_plain, gen=plain_case, examples={'quick': 1200, 'thorough': 100000},
            doc='tee_map on a plain Subject-driven observable vs join of the branches run alone, step-tagged'),
    ]
