"""C01 — multiplexing is transparent: keyed execution equals per-group plain execution."""
import rx
from hypothesis import strategies as st
import rxsci as rs

from vf.core import Sub, Violation, Reject
from vf import ast as A, gen, drive, cmp, harness as H, model as M

PID = 'C01'
LEVEL = 'exploration'
RULE = ("Hypothesis draws a type-correct pipeline over the dual-mode catalogue (0..6 nodes, tee_map with the three joins nested to "
        "depth 2, the tee precondition enforced by construction) and a list of [key, value] pairs (the draw is the interleaving; "
        "<= 5 groups, every group >= 1 item; int / optional-int / float values). Each group's values are run through the plain "
        "pipeline and compared, exactly and in order, with what the keyed run (group_by + with_memory_store; raw mux events with "
        "sparse key indices; multiplex for stateless pipelines) delivers for that group. Cases where the reference model says "
        "first/last/mean(reduce) sees an empty sequence are rejected and counted. Sub 'bigint': the same comparison over integers "
        "around +-2**53 .. +-2**62 through mean/sum/min/max/count/first/last (non-trivial there: a partial sum no double represents). Non-trivial: >= 2 groups genuinely interleaved, "
        ">= 1 stateful node, >= 1 group with output.")
ASSUMPTIONS = [
    'accumulators return values of the seed type; ints stay within 64 bits',
    'first/last/mean(reduce) never see an empty group (decided by the reference model, not by the code under test)',
    'inside tee_map no completion-triggered operator follows take/first in a branch (stated in C01)',
    'user functions are total and pure',
]

OPTS = gen.Opts(mux=False, max_depth=2, max_len=6, exact=True, tee_precondition=True, weights={'tee': 6})
NOEARLY = gen.Opts(mux=False, max_depth=2, max_len=3, exact=True, tee_precondition=True, exclude=('take', 'first'))
STATELESS = gen.Opts(mux=False, max_depth=2, max_len=5, exact=True, tee_precondition=True, stateless=True)


@st.composite
def keyed_case(draw, opts, raw=False, with_assert=False):
    tin = draw(st.sampled_from(['int', 'int', 'int', 'optint', 'float']))
    if not with_assert:
        p = draw(gen.chain(tin, opts, opts.max_depth, min_len=1))
    else:
        # P1 + failing assert + P2; P2 holds no take/first: in plain mode they dispose the
        # upstream assert, on a multiplexed key they do not, which is specified behaviour
        p1 = draw(gen.chain(tin, opts, opts.max_depth, max_len=3))
        t = A.type_of(p1, tin)
        if not A.isint(t):
            p1, tin, t = [], 'int', 'int'
        node = draw(st.sampled_from([['assert_mod', draw(st.integers(2, 5)), draw(st.integers(0, 1))], ['assert1_le']]))
        if node[0] == 'assert_mod' and draw(st.integers(0, 3)) == 0:
            # the same condition as a truthy / falsy NUMBER (2, 1, 0): whatever assert_ makes of a result that is not a bool,
            # it must make the same of it on a keyed and on a plain source
            node = node + ['int']
        p = p1 + [node] + draw(gen.chain(t, NOEARLY, NOEARLY.max_depth, max_len=3))
    if not with_assert and not opts.stateless and draw(st.integers(0, 5)) == 0 and not gen.has_early(p) and 'tee' not in A.kinds_in(p) and A.type_of(p, tin) in A.SCALAR:
        # a streaming scan that appends to ONE list and re-emits it, and a stage that keeps what it receives: the keyed run must
        # hand on the very same (live) objects as the plain run does
        p = p + [['scan_list_mut'], ['to_list']]
    items = draw(gen.keyed_items(max_keys=5, max_size=16, mono=tin))
    case = {'tin': tin, 'p': p, 'items': items, 'numpy': draw(st.integers(0, 5)) == 0}
    if raw:
        nk = 1 + max(k for k, _ in items)
        case['idx'] = draw(st.permutations([0, 1, 2, 5, 17, 3, 9]))[:nk]
        case['early_complete'] = draw(st.lists(st.booleans(), min_size=nk, max_size=nk))
    return case


def np_items(case):
    """the items of the case; with case['numpy'] the values are numpy scalars (what a pipeline fed from arrays / data frames
    carries) -- they compare and compute like Python numbers but their comparisons return numpy.bool_"""
    if not case.get('numpy'):
        return case['items']
    import numpy as np
    nodes = list(A.walk(case['p']))
    if any(n[0] == 'tee' and n[1] == 'merge' for n in nodes) and any(n[0] == 'duc' for n in nodes):
        # a merge of branches of different types puts numbers and lists on one stream, and numpy compares a scalar with a
        # list element-wise ([0] != np.int64(0) is array([False])): distinct_until_changed has no defined result there
        raise Reject()

    def conv(v):
        if isinstance(v, bool) or v is None:
            return v
        if isinstance(v, int):
            return np.int64(v) if abs(v) < 2 ** 62 else v
        if isinstance(v, float):
            return np.float64(v)
        return v
    return [[k, conv(v)] for k, v in case['items']]


def groups_of(items):
    order = []
    g = {}
    for k, v in items:
        if k not in g:
            g[k] = []
            order.append(k)
        g[k].append(v)
    return order, g


def in_domain(p, values):
    """The precondition of C01, decided by the reference model alone: no first / last / mean(reduce) node sees an empty
    sequence -- neither in the plain run (there first/last raise by design) nor in the multiplexed run (a key completes
    with its parent even where the plain observable was disposed early after take/first, so a mean(reduce) that the plain
    run never gets to evaluate is evaluated there: 0/0)."""
    ctx = M.MCtx('plain')
    try:
        M.run(A.model_chain(p, ctx), values)
        if ctx.empty_guard:
            raise Reject()
        M.run(A.model_chain(p, M.MCtx('mux')), values)
    except M.OutOfDomain:
        raise Reject()


def plain_runs(p, order, g):
    """per group: Result of the plain pipeline + do_action log; Reject on empty first/last/mean."""
    out = {}
    actions = []
    for k in order:
        in_domain(p, g[k])
    for k in order:
        env = A.Env()
        out[k] = drive.plain(g[k], A.build_pipeline(p, env))
        actions += env.actions
    return out, actions


def keyed_grouped(p, items):
    head, tail = [], []
    env = A.Env()
    # the group key VALUES are tuples / floats / ints with equal hashes (-1/-2, 0/2**61-1): groups are told apart by ==
    ops = [rs.ops.group_by(lambda i: A.GKEYS[i[0] % len(A.GKEYS)], [
        drive.tap(head), rs.ops.map(lambda i: i[1]), *A.build_pipeline(p, env), drive.tap(tail)])]
    r = drive.store([tuple(i) for i in items], ops)
    keymap = {}
    for kind, key, item, _t in head:
        if kind == 'n':
            keymap[key] = item[0]
    per = {}
    for kind, key, item, _t in tail:
        if kind == 'n':
            per.setdefault(keymap.get(key, ('?', key)), []).append(item)
    return r, per, env.actions


def keyed_raw(p, case):
    items = case['items']
    idx = case['idx']
    order, g = groups_of(items)
    remaining = {k: len(v) for k, v in g.items()}
    events = []
    created = set()
    for k, v in items:
        key = (idx[k],)
        if k not in created:
            created.add(k)
            events.append(rs.OnCreateMux(key))
        events.append(rs.OnNextMux(key, v))
        remaining[k] -= 1
        if remaining[k] == 0 and case['early_complete'][k]:
            events.append(rs.OnCompletedMux(key))
    for k in order:
        if not case['early_complete'][k]:
            events.append(rs.OnCompletedMux((idx[k],)))
    env = A.Env()
    tail = []
    r = drive.rawmux(events, A.build_pipeline(p, env) + [drive.tap(tail)])
    per = {}
    back = {idx[k]: k for k in order}
    for kind, key, item, _t in tail:
        if kind == 'n':
            per.setdefault(back.get(key[0], ('?', key)), []).append(item)
    return r, per, env.actions


def keyed_grouped2(p, items, k2):
    """A two-level keyed observable: group_by(k1, [group_by(k2, [map(value), *P])]); k2 of item n is k2[n].
    Returns per (k1, k2) group outputs."""
    head, tail = [], []
    env = A.Env()
    ops = [rs.ops.group_by(lambda i: i[0], [rs.ops.group_by(lambda i: i[2], [
        drive.tap(head), rs.ops.map(lambda i: i[1]), *A.build_pipeline(p, env), drive.tap(tail)])])]
    r = drive.store([(k, v, k2[n]) for n, (k, v) in enumerate(items)], ops)
    keymap = {}
    for kind, key, item, _t in head:
        if kind == 'n':
            keymap[key] = (item[0], item[2])
    per = {}
    for kind, key, item, _t in tail:
        if kind == 'n':
            per.setdefault(keymap.get(key, ('?', key)), []).append(item)
    return r, per, env.actions


def check_grouped2(case):
    items, k2 = case['items'], case['k2']
    order, g = [], {}
    for n, (k, v) in enumerate(items):
        kk = (k, k2[n])
        if kk not in g:
            g[kk] = []
            order.append(kk)
        g[kk].append(v)
    plain, pa = plain_runs(case['p'], order, g)
    r, per, ka = keyed_grouped2(case['p'], items, k2)
    H.require_clean(r, 'two-level group_by', pipeline=case['p'], items=items, k2=k2)
    for kk in order:
        if not plain[kk].ok:
            raise Violation('plain pipeline failed on a non-empty group although the model accepts the case', group=kk, pipeline=case['p'])
        if not cmp.same_seq(per.get(kk, []), plain[kk].items, approx=False):
            raise Violation('two-level group_by: group %r differs from the plain run of the same pipeline' % (kk,), group=kk,
                            values=g[kk], plain=plain[kk].items, keyed=per.get(kk, []), pipeline=case['p'], items=items, k2=k2)
    if [k for k in per if k not in g]:
        raise Violation('two-level group_by: output for unknown keys', pipeline=case['p'], items=items, k2=k2)
    adjacent = any(k2[n] == k2[n + 1] and items[n][0] != items[n + 1][0] for n in range(len(items) - 1))
    labels = H.labels_of(case['p']) + (['same-inner-key-adjacent-across-outer'] if adjacent else [])
    return {'nontrivial': len(order) >= 3 and A.pipeline_stateful(case['p']) and adjacent, 'labels': labels}


@st.composite
def keyed2_case(draw):
    case = draw(keyed_case(OPTS))
    n = len(case['items'])
    case['k2'] = draw(st.lists(st.integers(0, 1), min_size=n, max_size=n))
    return case


def compare(case, plain, pactions, r, per, kactions, what):
    p, items = case['p'], case['items']
    order, g = groups_of(items)
    for k in order:
        pr = plain[k]
        if not pr.ok:
            raise Violation('plain pipeline failed on a non-empty group although the model accepts the case',
                            group=k, values=g[k], result=pr.brief(), pipeline=p)
    H.require_clean(r, what, pipeline=p, items=items)
    dn = cmp.denumpy if case.get('numpy') else (lambda v: v)
    for k in order:
        got = dn(per.get(k, []))
        if not cmp.same_seq(got, dn(plain[k].items), approx=False):
            raise Violation('%s: group %r differs from the plain run of the same pipeline' % (what, k),
                            group=k, values=g[k], plain=plain[k].items, keyed=got, pipeline=p, items=items)
    extra = [k for k in per if k not in g]
    if extra:
        raise Violation('%s: output for unknown keys %r' % (what, extra), pipeline=p, items=items)
    # side effects upstream of take/first legitimately differ: a plain observable disposes its source early
    if not gen.has_early(p) and not cmp.same_bag(dn(pactions), dn(kactions), approx=False):
        raise Violation('%s: do_action saw different items' % what, plain=pactions, keyed=kactions, pipeline=p, items=items)


def info(case, plain):
    p, items = case['p'], case['items']
    keys = [k for k, _ in items]
    interleaved = len(set(keys)) >= 2 and keys != sorted(keys) and any(
        keys[i] != keys[i + 1] and keys[i] in keys[i + 2:] for i in range(len(keys) - 2))
    stateful = A.pipeline_stateful(p)
    has_out = any(len(r.items) > 0 for r in plain.values())
    labels = H.labels_of(p) + ['tin=' + case['tin'], 'groups=%d' % len(set(keys))]
    if interleaved:
        labels.append('interleaved')
    if stateful:
        labels.append('stateful')
    if case.get('numpy'):
        labels.append('numpy-scalars')
    return {'nontrivial': interleaved and stateful and has_out, 'labels': labels}


def check_grouped(case):
    for k in groups_of(case['items'])[0]:
        in_domain(case['p'], groups_of(case['items'])[1][k])
    case = dict(case, items=np_items(case))
    order, g = groups_of(case['items'])
    plain, pa = plain_runs(case['p'], order, g)
    r, per, ka = keyed_grouped(case['p'], case['items'])
    compare(case, plain, pa, r, per, ka, 'group_by')
    return info(case, plain)


BIG = gen.Opts(mux=False, tee=False, max_depth=1, max_len=3, exact=True, tee_precondition=True,
               only=('mean', 'sum', 'min', 'max', 'count', 'first', 'last', 'take', 'duc', 'filter_gt', 'identity', 'to_list',
                     'batch', 'do_action'))
# every VALUE fits 64 bits (assumption 1: a scan with an int seed keeps its accumulator in a 64-bit typed state); their sums
# inside mean / sum do not have to
BIG_BASES = [2 ** 53, 1_700_000_000_000_000_000, 2 ** 62, -2 ** 62, 10 ** 16, 2 ** 63 - 40]


@st.composite
def bigint_case(draw):
    """Integers far beyond 2**53 (epoch nanoseconds, 64 bit counters / ids, values that cancel): Python's ints are exact there,
    so whatever the plain pipeline computes for a group (a mean of an exact sum, an extremum) the keyed run must compute too."""
    p = draw(gen.chain('int', BIG, 1, min_len=1))
    base = draw(st.sampled_from(BIG_BASES))
    nk = draw(st.integers(1, 4))
    keys = draw(st.lists(st.integers(0, nk - 1), min_size=2, max_size=14))
    val = st.one_of(st.integers(-9, 9).map(lambda d: base + d), st.integers(-9, 9).map(lambda d: -base + d), st.integers(-9, 9))
    vals = draw(st.lists(val, min_size=len(keys), max_size=len(keys)))
    return {'tin': 'int', 'p': p, 'items': [[k, v] for k, v in zip(keys, vals)], 'numpy': False}


def check_bigint(case):
    out = check_grouped(case)
    out['labels'] = out['labels'] + ['big-ints']
    per_group = groups_of(case['items'])[1].values()
    inexact = any(abs(sum(v[:n])) > 2 ** 53 and float(sum(v[:n])) != sum(v[:n]) for v in per_group for n in range(1, len(v) + 1))
    if inexact:
        out['labels'].append('a partial sum that no double represents')
    out['nontrivial'] = bool(out['nontrivial'] and inexact)
    return out


def check_raw(case):
    case = dict(case, items=np_items(case))
    order, g = groups_of(case['items'])
    plain, pa = plain_runs(case['p'], order, g)
    r, per, ka = keyed_raw(case['p'], case)
    res = drive.Result()
    res.error, res.raised, res.completed, res.after_end = r.error, r.raised, r.completed, r.after_end
    compare(case, plain, pa, res, per, ka, 'raw mux')
    i = info(case, plain)
    i['labels'].append('sparse' if max(case['idx'][:len(order)]) > len(order) else 'dense')
    return i


def check_segments(case):
    """The keyed observable is made by rs.data.split (or a tumbling rs.data.roll): its groups follow each other on the SAME key
    index, so every stateful operator of P starts each group on a recycled store slot."""
    p, src = case['p'], np_items(case)
    if case.get('by') == 'roll':
        n = case['n']
        runs = [[v for _, v in src[i:i + n]] for i in range(0, len(src), n)]
        make = lambda inner: rs.data.roll(window=n, stride=n, pipeline=inner)
    else:
        runs = []
        last = object()
        for k, v in src:
            if k != last:
                runs.append([])
                last = k
            runs[-1].append(v)
        make = lambda inner: rs.data.split(lambda i: i[0], inner)
    items = [[j, v] for j, run in enumerate(runs) for v in run]     # relabelled: group id = position of the run
    order, g = groups_of(items)
    plain, pa = plain_runs(p, order, g)
    env = A.Env()
    tail = []
    r = drive.store([tuple(i) for i in src], [make([rs.ops.map(lambda i: i[1]), *A.build_pipeline(p, env), drive.tap(tail)])])
    lts = drive.lifetimes_of(tail)
    if len(lts) != len(runs):
        raise Violation('segments: %d groups were made, %d lifetimes came out of the pipeline' % (len(runs), len(lts)),
                        pipeline=p, items=src, by=case.get('by'))
    per = {j: lt['items'] for j, lt in enumerate(lts)}
    compare(dict(case, items=items), plain, pa, r, per, env.actions, 'segments (%s)' % case.get('by', 'split'))
    stateful = A.pipeline_stateful(p)
    has_out = sum(1 for j in order if len(plain[j].items) > 0)
    labels = H.labels_of(p) + ['tin=' + case['tin'], 'by=' + case.get('by', 'split')]
    return {'nontrivial': stateful and len(runs) >= 3 and has_out >= 2, 'labels': labels}


def tin_is_mono(tin):
    return tin == 'mono'


@st.composite
def segments_case(draw):
    case = draw(keyed_case(OPTS))
    # runs of equal keys: sort-free, the draw decides run lengths
    runs = draw(st.lists(st.tuples(st.integers(0, 2), st.integers(1, 5)), min_size=draw(st.sampled_from([1, 3, 3])), max_size=6))
    vals = [v for _, v in case['items']]
    total = sum(n for _, n in runs)
    if tin_is_mono(case['tin']):
        vals = sorted(vals * (1 + total // max(1, len(vals))))[:total] if vals else []
    else:
        vals = (vals * (1 + total // max(1, len(vals))))[:total]
    out = []
    pos = 0
    for k, n in runs:
        for v in vals[pos:pos + n]:
            out.append([k, v])
        pos += n
    case['items'] = out
    case['by'] = draw(st.sampled_from(['split', 'split', 'roll']))
    case['n'] = draw(st.integers(1, 4))
    return case


def check_multiplex(case):
    # one group only: multiplex() has a single key and no store
    items = [[0, v] for _, v in case['items']]
    order, g = groups_of(items)
    plain, pa = plain_runs(case['p'], order, g)
    env = A.Env()
    r = drive.multiplex([v for _, v in items], A.build_pipeline(case['p'], env))
    H.require_clean(r, 'multiplex', pipeline=case['p'], items=items)
    if not cmp.same_seq(r.items, plain[0].items, approx=False):
        raise Violation('multiplex(pipeline) differs from the plain pipeline', plain=plain[0].items, keyed=r.items,
                        pipeline=case['p'], items=[v for _, v in items])
    if not gen.has_early(case['p']) and not cmp.same_bag(pa, env.actions, approx=False):
        raise Violation('multiplex: do_action saw different items', plain=pa, keyed=env.actions, pipeline=case['p'])
    labels = H.labels_of(case['p'])
    return {'nontrivial': len(items) >= 2 and len(case['p']) >= 2 and len(r.items) > 0, 'labels': labels}


def check_assert(case):
    """A failing assert_/assert_1: keyed stream ends in on_error with the same exception type;
    each group's keyed output is a prefix of its plain output."""
    p, items = case['p'], case['items']
    order, g = groups_of(items)
    plain = {}
    for k in order:
        in_domain(p, g[k])     # assert nodes are identities in the model
    for k in order:
        plain[k] = drive.plain(g[k], A.build_pipeline(p, A.Env()))
        if plain[k].raised is not None:
            raise Violation('plain: exception escaped', result=plain[k].brief(), pipeline=p)
        if plain[k].error is not None and not isinstance(plain[k].error, ValueError):
            # e.g. first() after an assert that cut the sequence short: not the situation under test
            raise Reject()
    r, per, _ = keyed_grouped(p, items)
    failing = [k for k in order if plain[k].error is not None]
    if r.raised is not None:
        raise Violation('keyed: exception escaped', result=r.brief(), pipeline=p, items=items)
    if failing:
        if r.error is None:
            raise Violation('plain run of group %r fails its assert, keyed run does not signal on_error' % failing[0],
                            pipeline=p, items=items, keyed=r.brief())
        if type(r.error) is not type(plain[failing[0]].error):
            raise Violation('keyed run fails with %r, plain with %r' % (r.error, plain[failing[0]].error), pipeline=p, items=items)
        if r.completed:
            raise Violation('keyed run both failed and completed', pipeline=p, items=items)
    else:
        H.require_clean(r, 'keyed', pipeline=p, items=items)
    for k in order:
        got = per.get(k, [])
        exp = plain[k].items
        if failing:
            okay = len(got) <= len(exp) and cmp.same_seq(got, exp[:len(got)], approx=False)
        else:
            okay = cmp.same_seq(got, exp, approx=False)
        if not okay:
            raise Violation('group %r: keyed output is not %s its plain output' % (k, 'a prefix of' if failing else 'equal to'),
                            plain=exp, keyed=got, pipeline=p, items=items, values=g[k])
    labels = H.labels_of(p) + (['assert-failed'] if failing else ['assert-held'])
    return {'nontrivial': bool(failing) and len(order) >= 2, 'labels': labels}


def coverage_targets(classes, total):
    out = []
    g = classes.get('grouped:len>=3', 0)
    n = g + classes.get('grouped:len<3', 0)
    if n and g < 0.5 * n:
        out.append('grouped: only %d of %d pipelines have composition depth >= 3 (target 50%%)' % (g, n))
    return out


def subs(tier):
    return [
        Sub('grouped', check_grouped, gen=lambda: keyed_case(OPTS), examples={'quick': 1800, 'thorough': 400000},
            doc='group_by(key,[map(value),*P]) under with_memory_store vs rx.from_(group).pipe(*P), per group, exact'),
        Sub('bigint', check_bigint, gen=bigint_case, examples={'quick': 500, 'thorough': 60000},
            doc='the same with integer values far beyond 2**53 (exact Python ints: sums, means and extrema must agree digit for digit)'),
        Sub('grouped2', check_grouped2, gen=keyed2_case, examples={'quick': 700, 'thorough': 100000},
            doc='two-level keys: group_by(k1,[group_by(k2,[map(value),*P])]) vs the plain pipeline per (k1,k2) group'),
        Sub('raw', check_raw, gen=lambda: keyed_case(OPTS, raw=True), examples={'quick': 900, 'thorough': 200000},
            doc='raw mux events with sparse / unordered key indices through cast_as_mux_observable + with_memory_store(P)'),
        Sub('segments', check_segments, gen=segments_case, examples={'quick': 700, 'thorough': 100000},
            doc='groups that follow each other on one key index (rs.data.split runs / tumbling rs.data.roll windows): each vs the plain pipeline'),
        Sub('multiplex', check_multiplex, gen=lambda: keyed_case(STATELESS), examples={'quick': 600, 'thorough': 60000},
            doc='rs.ops.multiplex(P) (no store) for stateless pipelines'),
        Sub('assert_fails', check_assert, gen=lambda: keyed_case(OPTS, with_assert=True), examples={'quick': 600, 'thorough': 60000},
            doc='a failing assert_/assert_1: same exception type, per-group keyed output is a prefix of the plain output'),
    ]
