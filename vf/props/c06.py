"""C06 — split cuts each key's stream into maximal runs of equal predicate value."""
from hypothesis import strategies as st
import rxsci as rs

from vf.core import Sub, Violation, Reject
from vf import ast as A, gen, drive, cmp, harness as H, model as M, keys

PID = 'C06'
LEVEL = 'exploration'
RULE = ("Hypothesis draws items (predicate value, payload) whose predicate values are built at run time from a pool of equal-but-not-"
        "identical objects (10**20+k, tuples, joined strings, 1 / 1.0 / True, None), with runs of length 1, single runs and empty keys; "
        "split runs at top level, under group_by with interleaved keys, and nested in roll / split. A tap at the head of the segment "
        "pipeline (shared clock with a tap in front of split) must show, per parent key lifetime: segments == the maximal runs by != "
        "(reference: a plain loop), contiguous and in order, a new segment opened exactly while the first item of a run is processed, "
        "the last one closed when the key completes, no segment for an empty key; with to_list the output is the list of runs; with "
        "arbitrary inner pipelines the output equals the reference model. Non-trivial: >= 2 runs and a run with two adjacent items whose "
        "predicate values are equal but distinct objects.")
ASSUMPTIONS = [
    'segments are cut by != exactly as the statement says: a NaN predicate value differs from itself, so every such item starts a segment',
    'inner pipelines contain only total, pure user functions',
]

INNER = gen.Opts(mux=True, max_depth=1, max_len=3, exact=False, weights={'item': 2, 'fold': 5, 'seq': 5, 'muxseq': 4, 'window': 2, 'tee': 2})


NONE_PRED = [None]       # criterion of a None ITEM (set per case)


def pf(i):
    return NONE_PRED[0] if i is None else i[0]


def vf(i):
    return -1 if i is None else i[1]


def gf(i):
    return 0 if i is None else i[2]


def runs_of(objs):
    runs = []
    for it in objs:
        if runs and not (pf(it) != pf(runs[-1][0])):
            runs[-1].append(it)
        else:
            runs.append([it])
    return runs


def verify_split(items, item_t, done_t, segs, ctx):
    segs = sorted(segs, key=lambda l: l['open_t'])
    runs = runs_of(items)
    if len(segs) != len(runs):
        raise Violation('%d segments for %d runs' % (len(segs), len(runs)), segments=[l['items'] for l in segs], runs=runs, **ctx)
    outer = list(item_t) + [done_t]
    pos = 0
    for j, (lt, run) in enumerate(zip(segs, runs)):
        if lt.get('orphan') or not lt['closed']:
            raise Violation('segment %d is not create..items..complete' % j, **ctx)
        if not cmp.same_seq(lt['items'], run, approx=False):
            raise Violation('segment %d differs from run %d' % (j, j), expected=run, got=lt['items'], **ctx)
        if not (outer[pos] < lt['open_t'] < outer[pos + 1]):
            raise Violation('segment %d was not opened while the first item of its run was being processed' % j, **ctx)
        end = pos + len(run)       # index of the first item of the next run, or of the completion
        if not (outer[end] < lt['close_t'] and (end + 1 >= len(outer) or lt['close_t'] < outer[end + 1])):
            raise Violation('segment %d was not closed by the first item of the next run / the completion of the key' % j, **ctx)
        if j + 1 < len(segs) and not lt['close_t'] < segs[j + 1]['open_t']:
            raise Violation('segment %d overlaps the next one' % j, **ctx)
        pos = end
    return runs


@st.composite
def case_gen(draw):
    pool = draw(st.lists(st.one_of(keys.SPEC, keys.SPEC, keys.SPEC, st.tuples(st.just('nan'), st.integers(0, 1)).map(list)), min_size=1, max_size=4))
    pool = keys.compatible(pool)
    m = draw(st.sampled_from([0, 1, 4, 8]))
    # predicate index sequence with long runs: (index, repeat)
    segs = draw(st.lists(st.tuples(st.integers(0, len(pool) - 1), st.integers(1, 4)), min_size=min(m, 3), max_size=8))
    preds = []
    for i, rep in segs:
        preds += [i] * rep
    parent = draw(st.sampled_from(['none', 'none', 'group_by', 'group_by', 'roll', 'split', 'gb+roll']))
    gk = draw(st.lists(st.integers(0, 2), min_size=len(preds), max_size=len(preds)))
    pspec = [draw(st.integers(1, 5)), draw(st.integers(1, 5))] if parent == 'roll' else ([draw(st.integers(2, 4)), draw(st.integers(1, 2))] if parent == 'gb+roll' else None)
    which = draw(st.sampled_from(['to_list', 'to_list', 'p']))
    p = draw(gen.chain('int', INNER, 1, min_len=1)) if which == 'p' else [['to_list']]
    # a key-stateful operator BEHIND split, inside the same parent key: it must receive the last segment's result
    # before the parent key completes
    post = draw(st.sampled_from([None, None, 'to_list', 'count']))
    none_at = draw(st.lists(st.integers(0, max(0, len(preds) - 1)), max_size=3, unique=True)) if draw(st.integers(0, 3)) == 0 else []
    return {'pool': pool, 'preds': preds, 'gk': gk, 'parent': parent, 'pspec': pspec, 'p': p, 'post': post,
            'none_at': none_at, 'none_pred': draw(st.integers(0, 3)), 'pf_form': draw(st.sampled_from(['plain', 'plain', 'default_arg', 'partial', 'obj']))}


def check(case):
    pool, parent, p = case['pool'], case['parent'], case['p']
    # item = (predicate object, payload int, group key)
    objs = [(keys.mk(pool[pi]), n, g) for n, (pi, g) in enumerate(zip(case['preds'], case['gk']))]
    # None ITEMS: the predicate is an ordinary pure function of the item, it maps None to one of the pool values
    NONE_PRED[0] = keys.mk(pool[case.get('none_pred', 0) % len(pool)])
    for n in case.get('none_at', []):
        if n < len(objs):
            objs[n] = None
    ctx = {k: case.get(k) for k in ('pool', 'preds', 'gk', 'parent', 'pspec', 'p', 'post', 'none_at', 'none_pred')}
    post = case.get('post')
    post_real = {None: [], 'to_list': [rs.data.to_list()], 'count': [rs.ops.count()]}[post]
    clock, phead, head, tail = [0], [], [], []
    to_list_inner = p == [['to_list']]
    seg_ops = [drive.tap(head, clock)] + ([rs.data.to_list()] if to_list_inner else [rs.ops.map(vf)] + A.build_pipeline(p, A.Env()))
    pform = case.get('pf_form', 'plain')
    if pform == 'default_arg':
        pred = lambda i, table=None: pf(i)              # one item at a time; the second parameter has a default and is never given
    elif pform == 'partial':
        import functools
        pred = functools.partial(lambda f, i: f(i), pf)          # a callable without __name__
    elif pform == 'obj':
        class _P(object):
            def __call__(self, i):
                return pf(i)
        pred = _P()
    else:
        pred = pf
    inner = [drive.tap(phead, clock), rs.data.split(pred, seg_ops)] + post_real
    if parent == 'none':
        ops = inner
    elif parent == 'group_by':
        ops = [rs.ops.group_by(gf, inner)]
    elif parent == 'roll':
        ops = [rs.data.roll(case['pspec'][0], case['pspec'][1], inner)]
    elif parent == 'gb+roll':      # interleaved groups over (mostly overlapping) windows: parent key indexes are created out of order
        ops = [rs.ops.group_by(gf, [rs.data.roll(case['pspec'][0], case['pspec'][1], inner)])]
    else:
        ops = [rs.data.split(gf, inner)]

    # reference model for the whole output
    mctx = M.MCtx('mux')
    def seg_chain():
        return M.Chain(mctx, [M.Scan(A.acc_append, list, True)] if to_list_inner else [M.Map(vf)] + A.model_chain(p, mctx).ops)
    def split_chain():
        post_model = {None: [], 'to_list': [M.Scan(A.acc_append, list, True)], 'count': [M.Prefix(len, False)]}[post]
        return M.Chain(mctx, [M.Split(pf, seg_chain)] + post_model)
    if parent == 'none':
        top = split_chain()
    elif parent == 'group_by':
        top = M.Chain(mctx, [M.GroupBy(gf, split_chain)])
    elif parent == 'roll':
        top = M.Chain(mctx, [M.Roll(mctx, case['pspec'][0], case['pspec'][1], split_chain)])
    elif parent == 'gb+roll':
        top = M.Chain(mctx, [M.GroupBy(gf, lambda: M.Chain(mctx, [M.Roll(mctx, case['pspec'][0], case['pspec'][1], split_chain)]))])
    else:
        top = M.Chain(mctx, [M.Split(gf, split_chain)])
    try:
        exp = [v for _, v in M.run(top, objs)]
    except M.OutOfDomain:
        raise Reject()

    r = drive.store(objs, ops)
    H.require_clean(r, 'split run', **ctx)
    if not cmp.same_seq(r.items, exp, approx=True):
        raise Violation('output differs from the reference model', expected=exp, got=r.items, **ctx)

    plts = drive.lifetimes_of(phead)
    sl = drive.lifetimes_of(head)
    claimed = 0
    nruns = 0
    eqni = False
    for plt in plts:
        if plt.get('orphan') or not plt['closed']:
            raise Violation('parent lifetime is not create..items..complete', **ctx)
        mine = [l for l in sl if l['key'][1] == plt['key'] and plt['open_t'] < l['open_t'] < plt['close_t']]
        claimed += len(mine)
        runs = verify_split(plt['items'], plt['item_t'], plt['close_t'], mine, dict(ctx, parent_key=plt['key'], parent_items=plt['items']))
        nruns = max(nruns, len(runs))
        for run in runs:
            for a, b in zip(run, run[1:]):
                if pf(a) is not pf(b):
                    eqni = True
    if claimed != len(sl):
        raise Violation('%d segments were opened outside any parent key lifetime' % (len(sl) - claimed), **ctx)
    labels = ['post:%s' % post, 'parent:' + parent, 'inner:' + ('to_list' if to_list_inner else 'p'), 'runs=%d' % min(nruns, 4)]
    if eqni:
        labels.append('equal-not-identical-in-run')
    if not objs:
        labels.append('empty')
    if any(o is None for o in objs):
        labels.append('none-items')
    slots = {}
    for plt in plts:
        slots[plt['key'][0]] = slots.get(plt['key'][0], 0) + 1
    if any(v >= 2 for v in slots.values()):
        labels.append('parent-slot-reuse')
    return {'nontrivial': nruns >= 2 and eqni, 'labels': labels}


EQ_VALUES = [1, 1.0, True, 0, 0.0, -0.0, False, 2, 2.0]


def type_sign(v):
    """a pure criterion that tells apart items that are EQUAL and hash alike: (type name, sign bit)"""
    import math
    return (type(v).__name__, math.copysign(1.0, v))


@st.composite
def eq_case(draw):
    return {'vals': draw(st.lists(st.integers(0, len(EQ_VALUES) - 1), min_size=draw(st.sampled_from([0, 2, 5])), max_size=12)),
            'grouped': draw(st.booleans())}


def check_eqitems(case):
    """Items that compare equal (1 == 1.0 == True, 0.0 == -0.0) but get different criterion values from a pure predicate: the
    segments are the runs of equal CRITERION values, whatever the items' own equality says."""
    xs = [EQ_VALUES[k] for k in case['vals']]
    runs = []
    for x in xs:
        if runs and not (type_sign(x) != type_sign(runs[-1][-1])):
            runs[-1].append(x)
        else:
            runs.append([x])
    inner = [rs.data.split(type_sign, [rs.data.to_list()])]
    r = drive.store(xs, [rs.ops.group_by(lambda v: 'k', inner)] if case['grouped'] else inner)
    H.require_clean(r, 'split on equal-but-distinguishable items', **case)

    def same(a, b):
        import math
        return type(a) is type(b) and a == b and math.copysign(1.0, a) == math.copysign(1.0, b)
    if len(r.items) != len(runs) or any(len(g) != len(w) or not all(same(a, b) for a, b in zip(g, w)) for g, w in zip(r.items, runs)):
        raise Violation('segments differ from the runs of equal criterion values', items=[repr(x) for x in xs],
                        expected=[[repr(x) for x in w] for w in runs], got=[[repr(x) for x in g] for g in r.items], **case)
    return {'nontrivial': len(runs) >= 2 and len(runs) < len(xs), 'labels': ['grouped' if case['grouped'] else 'top']}


def subs(tier):
    return [
        Sub('eqitems', check_eqitems, gen=eq_case, examples={'quick': 400, 'thorough': 20000},
            doc='items that are equal and hash alike (1 / 1.0 / True, 0.0 / -0.0) split by a predicate that tells them apart'),
        Sub('runs', check, gen=case_gen, examples={'quick': 3000, 'thorough': 150000},
            doc='split at top level / under group_by / in roll / in split: segments == maximal runs by != (clocked taps) + whole output vs model'),
    ]
