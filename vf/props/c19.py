"""C19 — JSON-lines dump/load round-trips objects, with or without compression."""
import hashlib
import os
import shutil
import tempfile

from hypothesis import strategies as st
import rx
import rxsci.container.json as rjson
import rxsci.framing.line as line

from vf.core import Sub, Violation, Reject
from vf import drive, harness as H
from vf.gen import weighted_text

PID = 'C19'
LEVEL = 'exploration'
RULE = ("Lists of JSON-representable dicts (nested lists/dicts, ints within +-2^63, finite floats, booleans, None inside objects, "
        "arbitrary Unicode strings incl. newlines, quotes, U+2028, astral characters) are written with json.dump_to_file and read back "
        "with json.load_from_file for compression None / gzip / zstd, file sizes from 0 objects to several 64 KiB read chunks (the "
        "items are repeated with a multi-byte padding string so that chunk boundaries cut characters), by path and through a custom "
        "open_obj; and in memory through dump -> line.unframe -> load. The items read must equal the items written, in order, with "
        "the same types (1 vs 1.0 vs True), one item per object, completion without error. Non-trivial: file > 64 KiB or a string with "
        "a newline / non-ASCII character.")
ASSUMPTIONS = ['items are dicts with str keys (load drops top-level null); no NaN / infinity; no lone surrogates (orjson limits)']

SPECIAL = ['a', 'b', ' ', '"', '\\', '\n', '\r', '\t', '\u00e9', '\u20ac', '\U0001F600', '{', '}', '[', ']', ',', ':',
           '\u2028', '\u2029', '\x85', '\x0b', '\x0c', '\x1c', '\x1e']
TEXT = weighted_text(st.one_of(st.sampled_from(SPECIAL), st.characters(blacklist_categories=('Cs',))), max_size=10)
LEAF = st.one_of(st.none(), st.booleans(), st.integers(-2 ** 63, 2 ** 63 - 1), st.integers(-100, 100),
                 st.floats(allow_nan=False, allow_infinity=False), TEXT)
VALUE = st.recursive(LEAF, lambda ch: st.one_of(st.lists(ch, max_size=4), st.dictionaries(TEXT, ch, max_size=4)), max_leaves=10)
OBJ = st.dictionaries(TEXT, VALUE, max_size=5)


def strict_eq(a, b):
    if type(a) is not type(b):
        return False
    if isinstance(a, dict):
        return list(a.keys()) == list(b.keys()) and all(strict_eq(a[k], b[k]) for k in a)
    if isinstance(a, list):
        return len(a) == len(b) and all(strict_eq(x, y) for x, y in zip(a, b))
    if isinstance(a, float):
        import math
        return a == b and math.copysign(1, a) == math.copysign(1, b)
    return a == b


@st.composite
def case_gen(draw, files=True):
    items = draw(st.lists(OBJ, max_size=6))
    case = {'items': items}
    if not files:
        case['cuts'] = draw(st.lists(st.integers(0, 1000), max_size=6))
    if files:
        case['compression'] = draw(st.sampled_from([None, 'gzip', 'zstd']))
        case['repeat'] = draw(st.sampled_from([1, 1, 40, 1500, 1500]))
        case['pad'] = draw(st.sampled_from([0, 7, 301, 301]))
        case['open_obj'] = draw(st.sampled_from([None, None, 'plain', 'short']))
        case['twin'] = draw(st.integers(0, 2)) == 0
        if case['twin']:
            # two dump pipelines alive at once only exist in the path mode; give them something to interleave
            case['open_obj'] = None
            if len(items) < 2:
                case['items'] = items = items + [{'k': 1}, {'k': [2, 'x']}]
        case['rewrite'] = draw(st.integers(0, 3)) == 0
        case['skip'] = draw(st.sampled_from([None, 0, 1, 2]))
        case['odict'] = draw(st.integers(0, 3)) == 0
        case['bare_name'] = draw(st.integers(0, 3)) == 0
        case['encoding'] = draw(st.sampled_from(['utf-8', 'utf-8', 'utf-16', 'utf-32']))
        case['bigitem'] = draw(st.sampled_from([0, 0, 0, 66000, 140000, 300000]))
    return case


def compare(items, got, ctx):
    if len(got) != len(items):
        raise Violation('%d objects read back, %d written' % (len(got), len(items)), **ctx)
    for n, (a, b) in enumerate(zip(items, got)):
        if type(a).__name__ == 'OrderedDict':
            a = dict(a)
        if not strict_eq(a, b):
            raise Violation('object %d differs after the round trip' % n, wrote=a, read=b, **ctx)


def labels_of(items):
    s = repr(items)
    out = []
    flat = str(items)
    if any('\n' in x for x in _strings(items)):
        out.append('newline-in-string')
    if any(any(ord(c) > 127 for c in x) for x in _strings(items)):
        out.append('non-ascii')
    return out


def _strings(v):
    if isinstance(v, str):
        yield v
    elif isinstance(v, dict):
        for k, x in v.items():
            yield k
            for y in _strings(x):
                yield y
    elif isinstance(v, list):
        for x in v:
            for y in _strings(x):
                yield y


def check_memory(case):
    items = case['items']
    ctx = {'items': items, 'cuts': case.get('cuts')}
    r = drive.collect(rx.from_(items).pipe(rjson.dump(), line.unframe(), rjson.load()))
    H.require_clean(r, 'json dump -> load', **ctx)
    compare(items, r.items, ctx)
    # the dumped text cut at arbitrary positions (also directly in front of a newline), as a file read would deliver it
    d = drive.collect(rx.from_(items).pipe(rjson.dump()))
    text = ''.join(d.items)
    pos = [0] + sorted(min(len(text), c * len(text) // 1000 if c <= 1000 else len(text)) for c in (case.get('cuts') or [])) + [len(text)]
    nl = [i for i, ch in enumerate(text) if ch == '\n']
    if nl and case.get('cuts'):
        pos = sorted(pos + [nl[case['cuts'][0] % len(nl)]])      # a cut exactly between a record and its newline
    chunks = [text[a:b] for a, b in zip(pos, pos[1:])]
    r = drive.collect(rx.from_(chunks).pipe(line.unframe(), rjson.load()))
    H.require_clean(r, 'json dump -> re-chunk -> unframe -> load', chunks=chunks[:6], **ctx)
    compare(items, r.items, ctx)
    lab = labels_of(items)
    return {'nontrivial': bool(lab) and len(items) >= 1, 'labels': lab + ['memory']}


def check_files(case):
    comp = case['compression']
    # multi-byte characters of every UTF-8 length and lead-byte class (C3, E0, E2, EF, F0), incl. U+FEFF inside the text
    pad = (chr(0xe9) + chr(0x20ac) + chr(0x1F600) + chr(0x905) + chr(0xfeff) + chr(0x7ff) + chr(0x800) + chr(0xffff) + chr(0x10000)) * case['pad']
    items = []
    for n in range(case['repeat']):
        for it in case['items']:
            if case['pad']:
                it = dict(it)
                it['pad%d' % (n % 3)] = pad[:len(pad) - (n % 5)]
                # poorly compressible content of varying length: compressors emit output at data-dependent moments
                it['h'] = hashlib.sha256(b'%d' % n).hexdigest()[:8 + (n * 7) % 57]
            items.append(it)
    if case.get('bigitem') and items:
        # one record whose line is longer than the 64 KiB read / write chunk, in the middle of ordinary ones
        big = dict(items[len(items) // 2])
        # poorly compressible, with multi-byte characters sprinkled in
        big['big'] = ''.join(hashlib.sha256(b'big%d' % j).hexdigest() + chr(0x905) for j in range(case['bigitem'] // 67))
        items.insert(len(items) // 2, big)
    if case.get('odict'):
        import collections
        items = [collections.OrderedDict(it) for it in items]      # dict SUBCLASSES are JSON objects too (they read back as dicts)
    ctx = {k: case[k] for k in ('compression', 'repeat', 'pad', 'open_obj', 'encoding')}
    enc = case['encoding']
    ctx['items'] = case['items']
    d = tempfile.mkdtemp(prefix='rxsci_c19_')
    opened = []

    class ShortReads(object):
        """A raw-IO style file object: read(n) may return fewer than n bytes before the end (pipes, sockets do)."""

        def __init__(self, f):
            self.f = f
            self.k = 0

        def read(self, n=-1):
            self.k += 1
            if n is None or n < 0:
                return self.f.read()
            return self.f.read(max(1, min(n, [7, 4096, n, 1000, 65535, 1][self.k % 6])))

        def write(self, b):
            return self.f.write(b)

        def close(self):
            return self.f.close()

        def __enter__(self):
            return self

        def __exit__(self, *a):
            self.f.close()
            return False

    def my_open(f, mode, encoding):          # the documented prototype: open_obj(filename, mode, encoding), all three required
        opened.append(mode)
        fo = open(f, mode)
        return ShortReads(fo) if case['open_obj'] == 'short' else fo
    cwd = os.getcwd()
    try:
        f = os.path.join(d, 'x.json')
        if case.get('bare_name'):
            os.chdir(d)         # a file name without any directory part, relative to the current directory
            f = 'x.json'
        kw = {'open_obj': my_open} if case['open_obj'] else {}
        if case.get('rewrite'):
            # the path already holds an earlier, LONGER export written with the same settings: dump_to_file replaces it
            old = [{'old': n, 'pad': 'x' * 50} for n in range(len(items) + 3)]
            w0 = drive.collect(rx.from_(old).pipe(rjson.dump_to_file(f, compression=comp, encoding=enc)))
            H.require_clean(w0, 'earlier dump_to_file to the same path', **ctx)
        if case.get('twin') and not case['open_obj']:
            # the same live source written to TWO files in one pass (two dump pipelines alive at once)
            from rx.subject import Subject
            src = Subject()
            f2 = os.path.join(d, 'y.json')
            # the first file is read back FROM the completion callback of its dump: when completion is signalled the file is written
            inside = []
            w = drive.Result()

            def done():
                w.completed += 1
                inside.append(drive.collect(rjson.load_from_file(f, compression=comp, encoding=enc)) if os.path.exists(f) else None)
            src.pipe(rjson.dump_to_file(f, compression=comp, encoding=enc)).subscribe(
                on_next=w.items.append, on_error=lambda e: setattr(w, 'error', e), on_completed=done)
            w2 = drive.collect(src.pipe(rjson.dump_to_file(f2, compression=comp, encoding=enc)))
            for it in items:
                src.on_next(it)
            src.on_completed()
            if w.completed == 1 and w.error is None:
                if inside[0] is None:
                    raise Violation('json.dump_to_file signalled completion before the file existed', **ctx)
                H.require_clean(inside[0], 'load_from_file called from the completion callback of dump_to_file', **ctx)
                compare(items, inside[0].items, ctx)
            H.require_clean(w2, 'second dump_to_file on the same source', **ctx)
            r2 = drive.collect(rjson.load_from_file(f2, compression=comp, encoding=enc)) if os.path.exists(f2) else None
            if r2 is None:
                raise Violation('the second json.dump_to_file completed without creating the file', **ctx)
            H.require_clean(r2, 'load_from_file of the second file written in the same pass', **ctx)
            compare(items, r2.items, ctx)
        else:
            w = drive.collect(rx.from_(items).pipe(rjson.dump_to_file(f, compression=comp, encoding=enc, **kw)))
        H.require_clean(w, 'dump_to_file', **ctx)
        if not os.path.exists(f):
            raise Violation('json.dump_to_file completed without creating the file', **ctx)
        size = os.path.getsize(f)
        r = drive.collect(rjson.load_from_file(f, compression=comp, encoding=enc, **kw))
        H.require_clean(r, 'load_from_file', **ctx)
        compare(items, r.items, ctx)
        if case.get('skip') is not None and not case['open_obj'] and size <= 400000:
            # the documented `skip` option: the first k objects are left out -- on every subscription of the observable
            k = case['skip']
            lo = rjson.load_from_file(f, compression=comp, encoding=enc, skip=k)
            for n in (1, 2):
                rk = drive.collect(lo)
                H.require_clean(rk, 'load_from_file(skip=%d), subscription %d' % (k, n), **ctx)
                compare(items[k:], rk.items, dict(ctx, skip=k, subscription=n))
        if case['open_obj'] and not (any('r' in m for m in opened) and any(('w' in m or 'a' in m or 'x' in m) for m in opened)):
            raise Violation('the custom open_obj was not used for both the dump and the load (modes seen: %r)' % opened, **ctx)
    finally:
        os.chdir(cwd)
        shutil.rmtree(d, ignore_errors=True)
    lab = labels_of(case['items'])
    labels = lab + (['path-rewritten'] if case.get('rewrite') else []) + (['two-files-one-pass'] if case.get('twin') and not case['open_obj'] else []) + ['compression:%s' % comp, 'file>64K' if size > 65536 else 'file<=64K', 'open_obj:%s' % case['open_obj'], 'enc:' + enc]
    if not items:
        labels.append('no-objects')
    return {'nontrivial': size > 65536 or bool(lab), 'labels': labels}


def subs(tier):
    return [
        Sub('files', check_files, gen=case_gen, examples={'quick': 180, 'thorough': 8000},
            doc='dump_to_file -> load_from_file for None/gzip/zstd, 0 objects .. several 64 KiB chunks, path / custom open_obj'),
        Sub('memory', check_memory, gen=lambda: case_gen(files=False), examples={'quick': 800, 'thorough': 60000},
            doc='dump -> line.unframe -> load in memory'),
    ] + ([] if tier != 'thorough' else [
        Sub('fuzz', check_memory, fuzz='c19', fuzz_runs={'thorough': 480000},
            doc='atheris/libFuzzer campaign on the in-memory dump -> unframe -> load path'),
    ])
