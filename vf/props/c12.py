"""C12 — math aggregates are accurate and numerically stable."""
import hashlib
import math
import struct
from fractions import Fraction

from hypothesis import strategies as st
import rx
import rxsci as rs

from vf.core import Sub, Violation, Reject
from vf import drive, harness as H

PID = 'C12'
LEVEL = 'exploration'
RULE = ("Data: short sequences straight from Hypothesis (any finite float |x| <= 1e150, ints), and long ones (up to 2000 items quick, "
        "10^4 thorough) expanded from drawn parameters (offset 10^-6..10^9, scale 10^-13..10^6, 62-bit ints, shape uniform / two-point / sorted / "
        "constant / alternating sign, SHA-256 counter as PRNG). sum, mean, min, max, variance, stddev, formal.variance, formal.stddev "
        "are run streaming and reduce, with and without key_mapper, on plain observables, under with_memory_store and per key under "
        "group_by. Oracle: exact rational arithmetic on the very same doubles; with u = 2^-53, after i items (plus (i+2) 2^-1074 for gradual underflow): sum |err| <= 2 i u sum|x|; "
        "mean the same / i + u|mean|; min/max exact; variance |err| <= 8 (i+2) u (V + |mu| sqrt V) + (i u mu)^2 (i.e. relative error "
        "~ u * count * condition number); stddev the square root of that interval; < 2 items -> exactly 0.0; last streaming value == "
        "reduce value. Non-trivial: length >= 3 and (condition number >= 10^3 or length >= 1000 or mixed signs).")
ASSUMPTIONS = [
    'inputs are finite, |x| <= 1e150 (squares do not overflow)',
    'the tolerance is a bound with explicit constants, not bit-exactness: an error inside 8 n u kappa is not detected',
    'formal.variance keeps all items (O(n^2) streaming): checked up to 300 items',
]

U = Fraction(1, 2 ** 53)
ETA = Fraction(1, 2 ** 1074)      # gradual underflow: absolute error of one operation near zero
OPS = ['sum', 'mean', 'min', 'max', 'variance', 'stddev', 'fvariance', 'fstddev']


def expand(spec):
    if spec['kind'] == 'short':
        if spec.get('npint'):
            # fixed-width numpy integers (a uint8 / int8 column): only offered to min / max, whose result is one of the items
            import numpy
            t = getattr(numpy, spec['npint'])
            lo, hi = int(numpy.iinfo(t).min), int(numpy.iinfo(t).max)
            return [t(min(hi, max(lo, int(x) % (hi - lo + 1) + lo))) if isinstance(x, (int, float)) and x == x and abs(x) < 1e18 else t(0) for x in spec['xs']]
        if spec.get('numpy'):
            import numpy
            return [numpy.float64(x) if isinstance(x, float) else x for x in spec['xs']]       # values as they come out of pandas / numpy
        return list(spec['xs'])
    n, shape = spec['n'], spec['shape']
    off = spec['off_m'] * 10.0 ** spec['off_e']
    scale = 10.0 ** spec['scale_e']
    out = []
    ctr = 0
    buf = b''
    for i in range(n):
        if len(buf) < 8:
            buf += hashlib.sha256(b'%d:%d' % (spec['seed'], ctr)).digest()
            ctr += 1
        r = struct.unpack('<Q', buf[:8])[0] / 2.0 ** 64       # [0,1)
        buf = buf[8:]
        if shape == 'uniform':
            x = off + scale * (r - 0.5)
        elif shape == 'two-point':
            x = off + (scale if r < 0.5 else -scale)
        elif shape == 'constant':
            x = off + scale
        elif shape == 'alternating':
            x = (off + scale * r) * (1 if i % 2 == 0 else -1)
        else:  # sorted
            x = off + scale * i / max(1, n)
        out.append(x)
    if spec.get('int_first') and out and abs(out[0]) < 2.0 ** 62:
        out[0] = int(out[0])      # a series that starts with an int (a counter, a parsed "0") and goes on with floats
    return out


def km_item(km, x, n):
    """the source item that carries value x under key_mapper form km: a 1-tuple, or a record (a dict with the position as a
    second field: records with equal values are different, unorderable items -- only the MAPPED values may be compared)"""
    return {'v': x, 'n': n} if km == 'dict' else (x,)


def build(op, reduce, km):
    kw = {'reduce': reduce}
    if km == 'dict':
        kw['key_mapper'] = lambda i: i['v']
    elif km:
        kw['key_mapper'] = lambda i: i[0]
    return {'sum': rs.math.sum, 'mean': rs.math.mean, 'min': rs.math.min, 'max': rs.math.max, 'variance': rs.math.variance,
            'stddev': rs.math.stddev, 'fvariance': rs.math.formal.variance, 'fstddev': rs.math.formal.stddev}[op](**kw)


class Exact(object):
    """Incremental exact statistics of a prefix."""

    def __init__(self):
        self.n = 0
        self.s1 = Fraction(0)
        self.s2 = Fraction(0)
        self.sabs = Fraction(0)
        self.mn = None
        self.mx = None

    def add(self, x):
        f = Fraction(x.item() if type(x).__module__ == 'numpy' else x)      # a Fraction built on a fixed-width numpy int would wrap
        self.n += 1
        self.s1 += f
        self.s2 += f * f
        self.sabs += abs(f)
        self.mn = x if self.mn is None or x < self.mn else self.mn
        self.mx = x if self.mx is None or x > self.mx else self.mx

    def var(self, ddof):
        n = self.n
        if n - ddof <= 0 or n < 2 and ddof == 1:
            return Fraction(0)
        if n == 0:
            return Fraction(0)
        return (self.s2 - self.s1 * self.s1 / n) / (n - ddof)


def fsqrt(fr):
    """sqrt of a non-negative Fraction as Fraction bounds (lo, hi)"""
    if fr <= 0:
        return Fraction(0), Fraction(0)
    x = math.sqrt(float(fr)) if fr < Fraction(10) ** 300 else float('inf')
    if x == float('inf') or x == 0.0:
        # scale
        k = 0
        g = fr
        while g > 1:
            g /= 4
            k += 1
        while g < Fraction(1, 4):
            g *= 4
            k -= 1
        x0 = Fraction(math.sqrt(float(g))) * Fraction(2) ** k
    else:
        x0 = Fraction(x)
    return x0 * (1 - 4 * U), x0 * (1 + 4 * U)


def judge(op, i, ex, got, ctx):
    """got: value emitted after i items (ex = exact stats of those i items)."""
    if op in ('min', 'max'):
        want = ex.mn if op == 'min' else ex.mx
        if not (got == want and (want is None or math.copysign(1, got) == math.copysign(1, want) or want == 0)):
            raise Violation('%s after %d items is %r, exact %r' % (op, i, got, want), **ctx)
        return
    if not isinstance(got, float) and not (op == 'mean' and isinstance(got, (int, float))):
        raise Violation('%s emitted a %s' % (op, type(got).__name__), got=repr(got), **ctx)
    if got != got or got in (float('inf'), float('-inf')):
        raise Violation('%s after %d items is %r' % (op, i, got), **ctx)
    g = Fraction(got)
    if op == 'sum':
        want = ex.s1
        tol = 2 * i * U * ex.sabs + (i + 2) * ETA
    elif op == 'mean':
        want = ex.s1 / i
        tol = 2 * i * U * ex.sabs / i + U * abs(want) + (i + 2) * ETA
    else:
        ddof = 1 if op in ('variance', 'stddev') else 0
        if i < 2 and ddof == 1 or i < 1:
            if got != 0.0:
                raise Violation('%s of %d item(s) is %r, must be exactly 0.0' % (op, i, got), **ctx)
            return
        v = ex.var(ddof)
        mu = ex.s1 / i
        sv_lo, sv_hi = fsqrt(v)
        tolv = 8 * (i + 2) * U * (v + abs(mu) * sv_hi) + (i * U * mu) ** 2 + 4 * (i + 2) * ETA
        if op in ('variance', 'fvariance'):
            want, tol = v, tolv
        else:
            lo = fsqrt(max(Fraction(0), v - tolv))[0]
            hi = fsqrt(v + tolv)[1]
            if not (lo <= g <= hi):
                raise Violation('%s after %d items outside the interval allowed by the variance bound' % (op, i), got=got,
                                lo=float(lo), hi=float(hi), exact_var=float(v), **ctx)
            return
    if abs(g - want) > tol:
        raise Violation('%s after %d items: |error| exceeds the bound' % (op, i), got=got, exact=float(want),
                        abs_err=float(abs(g - want)), bound=float(tol), **ctx)


def run_mode(mode, items, ops):
    if mode == 'plain':
        return drive.plain(items, ops)
    return drive.store(items, ops)


def check(case):
    xs = expand(case['data'])
    op, km, mode = case['op'], case['km'], case['mode']
    if op in ('fvariance', 'fstddev'):
        xs = xs[:1030]          # quadratic cost: long inputs are cut just beyond 1000 items
    ctx = {k: case[k] for k in ('op', 'km', 'mode', 'data', 'w', 'nk') if k in case}
    items = [km_item(km, x, n) for n, x in enumerate(xs)] if km else list(xs)
    # split among keys for the grouped mode: key = position % nk
    if mode == 'grouped':
        nk = case.get('nk', 2)
        head, tail_s, tail_r = [], [], []
        wrap = (lambda x, n: (km_item(km, x, n), n % nk)) if km else (lambda x, n: (x, n % nk))
        gitems = [wrap(x, n) for n, x in enumerate(xs)]
        res = {}
        for reduce, tail in ((False, tail_s), (True, tail_r)):
            ops = [rs.ops.group_by(lambda i: i[1], [rs.ops.map(lambda i: i[0]), build(op, reduce, km), drive.tap(tail)])]
            r = drive.store(gitems, ops)
            if op == 'mean' and reduce and not xs:
                pass
            H.require_clean(r, '%s grouped reduce=%s' % (op, reduce), **ctx)
        seqs = [xs[k::nk] for k in range(nk)]
        ls = {l['key'][0]: l for l in drive.lifetimes_of(tail_s)}
        lr = {l['key'][0]: l for l in drive.lifetimes_of(tail_r)}
        per_key = []
        for k in range(nk):
            if not seqs[k]:
                continue
            per_key.append((seqs[k], ls[k]['items'], lr[k]['items']))
    elif mode == 'windows':
        # tumbling windows: the lifetimes follow each other on ONE key index, each is a statistic of its own items
        w = case.get('w', 3)
        tail_s, tail_r = [], []
        for reduce, tail in ((False, tail_s), (True, tail_r)):
            r = drive.store(items, [rs.data.roll(window=w, stride=w, pipeline=[build(op, reduce, km), drive.tap(tail)])])
            H.require_clean(r, '%s in tumbling windows reduce=%s' % (op, reduce), **ctx)
        seqs = [xs[i:i + w] for i in range(0, len(xs), w)]
        ls, lr = drive.lifetimes_of(tail_s), drive.lifetimes_of(tail_r)
        if len(ls) != len(seqs) or len(lr) != len(seqs):
            raise Violation('%d tumbling windows expected, %d / %d lifetimes seen' % (len(seqs), len(ls), len(lr)), **ctx)
        per_key = [(seqs[j], ls[j]['items'], lr[j]['items']) for j in range(len(seqs))]
    else:
        if op == 'mean' and not xs:
            raise Reject()
        rs_ = run_mode(mode, items, [build(op, False, km)])
        rr = run_mode(mode, items, [build(op, True, km)])
        H.require_clean(rs_, '%s streaming' % op, **ctx)
        H.require_clean(rr, '%s reduce' % op, **ctx)
        per_key = [(xs, rs_.items, rr.items)]
    kappa_max = 0.0
    for seq, stream, red in per_key:
        if len(stream) != len(seq):
            raise Violation('%s streaming emitted %d values for %d items' % (op, len(stream), len(seq)), **ctx)
        if len(red) != 1:
            raise Violation('%s reduce emitted %d values' % (op, len(red)), got=red[:5], **ctx)
        ex = Exact()
        for i, x in enumerate(seq):
            ex.add(x)
            judge(op, i + 1, ex, stream[i], ctx)
        if seq:
            judge(op, len(seq), ex, red[0], ctx)
            a, b = stream[-1], red[0]
            if not (a == b or (a != a and b != b)):
                raise Violation('last streaming value %r != reduce value %r' % (a, b), **ctx)
            v = ex.var(0)
            if v > 0:
                mu = ex.s1 / ex.n
                kappa_max = max(kappa_max, math.sqrt(1 + float(mu * mu / v)))
        else:
            want = {'sum': 0.0, 'min': None, 'max': None, 'variance': 0.0, 'stddev': 0.0, 'fvariance': 0.0, 'fstddev': 0.0}.get(op, 'skip')
            if want != 'skip' and not (red[0] == want and type(red[0]) is type(want)):
                raise Violation('%s(reduce) of an empty sequence is %r, expected %r' % (op, red[0], want), **ctx)
    n = len(xs)
    mixed = any(x < 0 for x in xs) and any(x > 0 for x in xs)
    labels = ['op:' + op, 'mode:' + mode, 'km' if km else 'nokm', 'data:' + (case['data']['kind'] if case['data']['kind'] == 'short' else case['data']['shape']),
              'len>=1000' if n >= 1000 else ('len>=100' if n >= 100 else 'len<100'), 'kappa>=1e3' if kappa_max >= 1e3 else 'kappa<1e3']
    if n == 0:
        labels.append('empty')
    return {'nontrivial': n >= 3 and (kappa_max >= 1e3 or n >= 1000 or mixed), 'labels': labels}


FLOAT_KINDS = [
    st.floats(min_value=-1e150, max_value=1e150, allow_nan=False, allow_infinity=False),
    st.floats(min_value=-1e6, max_value=1e6, allow_nan=False, allow_infinity=False),
    st.integers(-10 ** 6, 10 ** 6).map(float),
    st.integers(-1000, 1000),
    st.integers(2 ** 60, 2 ** 62),                      # e.g. epoch nanoseconds: sums leave the 64-bit range
    st.integers(1, 9).map(lambda k: 1.0 + k * 1e-10),   # spreads far below sqrt(eps)
    st.sampled_from([0, 0.0, -0.0, -1, 1, -0.5, 0.5]),  # zeros (falsy running values) among small numbers of both signs
]
FLOATS = st.one_of(*FLOAT_KINDS)


@st.composite
def case_gen(draw, long_max):
    kind = draw(st.sampled_from(['short', 'short', 'short', 'long']))
    if kind == 'short':
        # half of the lists are homogeneous (all items of one kind: all ints, all 62-bit ints, all tiny spreads ...)
        elems = draw(st.sampled_from([FLOATS] * len(FLOAT_KINDS) + FLOAT_KINDS))
        data = {'kind': 'short', 'xs': draw(st.lists(elems, min_size=draw(st.sampled_from([0, 1, 2, 3, 8])), max_size=12)),
                'numpy': draw(st.integers(0, 3)) == 0}
        if data['xs'] and draw(st.integers(0, 5)) == 0:
            data['xs'][0] = 0        # the int 0 (the filler of an unused slot, a falsy running value) as the FIRST item of a key
    else:
        data = {'kind': 'long', 'n': draw(st.sampled_from([10, 100, 300, 1100, long_max])), 'off_m': draw(st.sampled_from([0.0, 1.0, -3.0, 7.25])),
                'off_e': draw(st.integers(-6, 9)), 'scale_e': draw(st.integers(-13, 6)),
                'shape': draw(st.sampled_from(['uniform', 'two-point', 'sorted', 'constant', 'alternating'])), 'seed': draw(st.integers(0, 10 ** 6)),
                'int_first': draw(st.integers(0, 3)) == 0}
    mode = draw(st.sampled_from(['plain', 'store', 'grouped', 'windows']))
    case = {'data': data, 'op': draw(st.sampled_from(OPS)), 'km': draw(st.sampled_from([False, False, True, 'dict'])), 'mode': mode}
    if case['op'] in ('sum', 'mean', 'min', 'max') and kind == 'short' and mode != 'grouped' and draw(st.integers(0, 7)) == 0:
        # huge values of alternating sign: every partial sum of a run of CONSECUTIVE items is representable (not so for the
        # every-other-item sequences of the grouped mode, where a sum legitimately overflows)
        h = draw(st.sampled_from([1e308, 1.7e308, 9e307]))
        data['xs'] = [h if j % 2 == 0 else -h for j in range(draw(st.integers(2, 7)))]
        data['numpy'] = False
    if case['op'] in ('min', 'max') and kind == 'short' and draw(st.integers(0, 3)) == 0:
        # the running extreme is a zero (falsy) and is followed by items that do not beat it; 60-bit ints a double cannot hold
        big = 2 ** 60
        data['xs'] = draw(st.sampled_from([[-1.5, 0.0, -2.0, -0.5], [1.5, 0.0, 2.0, 0.5], [-1, 0, -2, -3], [2, 0, 3, 1], [0, -3, -5], [0, 3, 5],
                                           [big + 1, big - 40, big - 7], [-big - 1, -big + 40, -big + 7], [big + 1, big + 3, big + 2]]))
        data['numpy'] = False
    if case['op'] in ('variance', 'stddev', 'mean') and kind == 'short' and draw(st.integers(0, 7)) == 0:
        # a constant run at a magnitude whose square is not representable: the exact variance is 0 after every item
        data['xs'] = [draw(st.sampled_from([1e306, -1e306, 1e200, 3e155]))] * draw(st.integers(2, 30))
        data['numpy'] = False
    if case['op'] in ('min', 'max') and kind == 'short' and draw(st.integers(0, 2)) == 0:
        data['npint'] = draw(st.sampled_from(['uint8', 'int8', 'uint16', 'int64']))
    if mode == 'grouped':
        case['nk'] = draw(st.integers(2, 3))
    if mode == 'windows':
        case['w'] = draw(st.sampled_from([1, 2, 3, 5, 50]))
    return case


@st.composite
def resub_case(draw):
    return {'op': draw(st.sampled_from(OPS)), 'reduce': draw(st.booleans()), 'km': draw(st.booleans()),
            'xs': draw(st.lists(st.one_of(st.integers(-50, 50), st.floats(-1e3, 1e3, allow_nan=False)), min_size=1, max_size=10)),
            'peek': draw(st.integers(0, 3))}


def check_resub(case):
    """The same aggregate observable used more than once: after a subscriber that left early (take) and by two
    subscribers at the same time -- every subscription computes the statistic of ITS items from scratch."""
    import rx.operators as rxops
    xs, op = case['xs'], case['op']
    items = [(x,) for x in xs] if case['km'] else list(xs)
    agg = build(op, case['reduce'], case['km'])
    ref = drive.plain(items, [build(op, case['reduce'], case['km'])])
    H.require_clean(ref, 'reference run', **case)
    obs = rx.from_(items).pipe(agg)
    drive.collect(obs.pipe(rxops.take(case['peek'])))          # a subscriber that leaves early
    for n in (1, 2):
        r = drive.collect(obs)
        H.require_clean(r, 'subscription %d after an early leaver' % n, **case)
        if r.items != ref.items and not (len(r.items) == len(ref.items) and all(a == b or (a != a and b != b) for a, b in zip(r.items, ref.items))):
            raise Violation('%s: a later subscription of the same observable differs from a fresh one' % op, fresh=ref.items, got=r.items, **case)
    for n, r in enumerate(drive.two_subscribers(items, agg)):
        H.require_clean(r, 'subscriber %d of two' % n, **case)
        if r.items != ref.items:
            raise Violation('%s: two subscribers of the same observable interfere' % op, fresh=ref.items, got=r.items, **case)
    return {'nontrivial': len(xs) >= 3, 'labels': ['op:' + op, 'reduce' if case['reduce'] else 'stream']}


def subs(tier):
    lm = 10000 if tier == 'thorough' else 2000
    return [
        Sub('accuracy', check, gen=lambda: case_gen(lm), examples={'quick': 1800, 'thorough': 40000},
            doc='every prefix (streaming) and the final value (reduce) against exact rational statistics with an explicit error bound'),
        Sub('resubscribe', check_resub, gen=resub_case, examples={'quick': 500, 'thorough': 30000},
            doc='the same plain aggregate observable after an early-leaving subscriber, and with two subscribers at once'),
    ]
