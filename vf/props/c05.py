"""C05 — roll produces exactly the count-based sliding windows, in order."""
from hypothesis import strategies as st
import rxsci as rs

from vf.core import Sub, Violation, Reject
from vf import ast as A, gen, drive, cmp, harness as H, model as M
from vf.props import c02

PID = 'C05'
LEVEL = 'exploration'
RULE = ("Sub 'enum' enumerates every window 1..8 x stride 1..8 x stream length 0..40 (thorough: 1..12 x 1..12 x 0..120) at top level, "
        "with taps at the head and tail of the window pipeline: the j-th opened window must receive exactly items [j*s, j*s+w), windows "
        "open exactly at items 0, s, 2s.., a full window is completed with its w-th item before the next source item is consumed, "
        "windows are completed in opening order (full ones, then the partial ones at key completion) and to_list results appear in "
        "that order. Hypothesis subs put roll under group_by with interleaved keys, nest it in roll / split, and give it arbitrary "
        "inner pipelines, comparing per-key window contents with the slices and the whole output with the reference model. "
        "Non-trivial: >= 2 windows overlap or >= 2 partial windows are open at completion, and n >= w+s.")
ASSUMPTIONS = [
    'the order in which ONE item is handed to several open windows is not specified (only the closing order is)',
    'inner pipelines contain only total, pure user functions',
]

INNER = gen.Opts(mux=True, max_depth=1, max_len=3, exact=False, weights={'item': 2, 'fold': 5, 'seq': 5, 'muxseq': 4, 'window': 2, 'tee': 2})


def verify_roll(items, item_t, done_t, wins, w, s, ctx):
    """items of ONE parent key lifetime with the times they entered roll, the time the parent completed,
    and the window lifetimes (tap inside the window pipeline, same clock) that belong to it."""
    n = len(items)
    nwin = -(-n // s) if n else 0
    wins = sorted(wins, key=lambda l: l['open_t'])
    if len(wins) != nwin:
        raise Violation('%d windows opened, expected %d' % (len(wins), nwin), windows=[l['items'] for l in wins], **ctx)
    outer = list(item_t) + [done_t]
    for j, lt in enumerate(wins):
        exp = items[j * s: j * s + w]
        if lt.get('orphan') or not lt['closed']:
            raise Violation('window %d is not create..items..complete' % j, window=lt['items'], **ctx)
        if not cmp.same_seq(lt['items'], exp, approx=False):
            raise Violation('window %d (opened at item %d) received %r, expected items [%d, %d)' % (j, j * s, lt['items'], j * s, j * s + w),
                            expected=exp, got=lt['items'], **ctx)
        # opens while item j*s is being processed
        if not (outer[j * s] < lt['open_t'] < outer[j * s + 1]):
            raise Violation('window %d was not opened while item %d was being processed' % (j, j * s), **ctx)
        if len(exp) == w:
            k = j * s + w - 1
            if not (outer[k] < lt['close_t'] < outer[k + 1]):
                raise Violation('full window %d was not completed while its last item (%d) was being processed' % (j, k), **ctx)
        elif lt['close_t'] < done_t:
            raise Violation('partial window %d was completed before its key completed' % j, **ctx)
    closes = [l['close_t'] for l in wins]
    if closes != sorted(closes):
        raise Violation('windows are not closed in the order they were opened', close_times=closes,
                        windows=[l['items'] for l in wins], **ctx)
    return wins


def check_enum(case):
    w, s, n = case['w'], case['s'], case['n']
    items = list(range(n))
    ctx = {'w': w, 's': s, 'n': n}
    clock, outer, head = [0], [], []
    r = drive.store(items, [drive.tap(outer, clock), rs.data.roll(w, s, [drive.tap(head, clock), rs.data.to_list()])])
    H.require_clean(r, 'roll', **ctx)
    root = drive.lifetimes_of(outer)[0]
    wins = verify_roll(items, root['item_t'], root['close_t'], drive.lifetimes_of(head), w, s, ctx)
    exp = [items[j * s: j * s + w] for j in range(len(wins))]
    if r.items != exp:
        raise Violation('to_list results do not appear in window order', expected=exp, got=r.items, **ctx)
    dens = -(-w // s)
    partial = sum(1 for l in wins if len(l['items']) < w)
    nt = (dens >= 2 or partial >= 2) and n >= w + s
    labels = ['s<w' if s < w else ('s=w' if s == w else 's>w'), 'multiple' if w % s == 0 else 'non-multiple',
              'wraps>=2' if len(wins) >= 2 * dens + 1 else 'wraps<2', 'partial=%d' % min(partial, 3)]
    return {'nontrivial': nt, 'labels': labels}


def enum(tier):
    yield {'w': 2, 's': 1, 'n': 66000}      # more items in one key than a 16-bit counter holds
    for w, s, n in ((256, 256, 600), (257, 257, 600), (300, 300, 700), (300, 100, 650), (257, 300, 700)):
        yield {'w': w, 's': s, 'n': n}       # sizes beyond CPython's small-int cache
    wm, nm = (12, 120) if tier == 'thorough' else (8, 40)
    for w in range(1, wm + 1):
        for s in range(1, wm + 1):
            for n in range(0, nm + 1):
                if tier == 'thorough' and n > 40 and (n + w + s) % 3:
                    continue
                yield {'w': w, 's': s, 'n': n}


@st.composite
def keyed_case(draw):
    w = draw(st.integers(1, 5))
    s = draw(st.integers(1, 4))
    nk = draw(st.integers(1, 3))
    m = draw(st.sampled_from([0, 6, 12, 20]))
    keys = draw(st.lists(st.integers(0, nk - 1), min_size=m, max_size=30))
    items = [[k, i] for i, k in enumerate(keys)]
    parent = draw(st.sampled_from(['group_by', 'group_by', 'roll', 'split']))
    spec = [draw(st.integers(1, 5)), draw(st.integers(1, 5))] if parent == 'roll' else None
    return {'w': w, 's': s, 'items': items, 'parent': parent, 'pspec': spec, 'objects': draw(st.booleans()), 'post': draw(st.integers(0, 3)) == 0, 'npws': draw(st.integers(0, 3)) == 0}


class Rec(object):
    """an item without value semantics (a plain instance is equal only to itself): a window must receive the key's items
    THEMSELVES, not look-alikes"""

    def __init__(self, k, i):
        self.k, self.i = k, i

    def __getitem__(self, n):
        return (self.k, self.i)[n]

    def __repr__(self):
        return 'Rec(%r, %r)' % (self.k, self.i)

    def __deepcopy__(self, memo):
        return self


def check_keyed(case):
    """roll under group_by (interleaved keys) / nested in roll / split: every parent key lifetime separately."""
    w, s, parent = case['w'], case['s'], case['parent']
    items = [Rec(*i) for i in case['items']] if case.get('objects') else [tuple(i) for i in case['items']]
    ctx = {'w': w, 's': s, 'items': case['items'], 'parent': parent, 'pspec': case['pspec']}
    clock, phead, head = [0], [], []
    wn, sn = w, s
    if case.get('npws'):
        import numpy
        wn, sn = numpy.int64(w), numpy.int32(s)        # window / stride given as numpy integers (sizes computed from an array)
    inner = [drive.tap(phead, clock), rs.data.roll(wn, sn, [drive.tap(head, clock), rs.data.to_list()])]
    if case.get('post'):
        # a key-stateful stage BEHIND roll in the same parent key: every window's result reaches it before the key completes
        inner = inner + [rs.ops.map(len), rs.math.sum(reduce=True)]
    if parent == 'group_by':
        ops = [rs.ops.group_by(lambda i: i[0], inner)]
    elif parent == 'roll':
        ops = [rs.data.roll(case['pspec'][0], case['pspec'][1], inner)]
    else:
        ops = [rs.data.split(lambda i: i[0], inner)]
    r = drive.store(items, ops)
    H.require_clean(r, 'nested roll', **ctx)
    plts = drive.lifetimes_of(phead)
    wl = drive.lifetimes_of(head)
    claimed = 0
    nt = False
    for plt in plts:
        if plt.get('orphan') or not plt['closed']:
            raise Violation('parent lifetime is not create..items..complete', **ctx)
        mine = [l for l in wl if l['key'][1] == plt['key'] and plt['open_t'] < l['open_t'] < plt['close_t']]
        claimed += len(mine)
        verify_roll(plt['items'], plt['item_t'], plt['close_t'], mine, w, s,
                    dict(ctx, parent_key=plt['key'], parent_items=plt['items']))
        if len(plt['items']) >= w + s and -(-w // s) >= 2:
            nt = True
    if claimed != len(wl):
        raise Violation('%d windows were opened outside any parent key lifetime' % (len(wl) - claimed), **ctx)
    if case.get('post'):
        want = sorted(sum(len(plt['items'][j * s: j * s + w]) for j in range(-(-len(plt['items']) // s) if plt['items'] else 0)) for plt in plts)
        if sorted(r.items) != want:
            raise Violation('a stage behind roll did not receive every window of its key before the key completed', expected_totals=want, got=r.items, **ctx)
    labels = ['parent:' + parent, 's<w' if s < w else ('s=w' if s == w else 's>w'), 'parent-lifetimes=%d' % min(len(plts), 4)]
    keys = [k for k, _ in case['items']]
    if case.get('objects'):
        labels.append('identity-items')
    if parent == 'group_by' and keys != sorted(keys):
        labels.append('interleaved')
    slots = {}
    for plt in plts:
        slots[plt['key'][0]] = slots.get(plt['key'][0], 0) + 1
    if any(v >= 2 for v in slots.values()):
        labels.append('parent-slot-reuse')
    return {'nontrivial': nt and len(plts) >= 2, 'labels': labels}


@st.composite
def model_case(draw):
    w = draw(st.integers(1, 6))
    s = draw(st.integers(1, 6))
    p = draw(gen.chain('int', INNER, 1))
    # 'gb+roll': interleaved groups over overlapping outer windows -- the parent key indexes of the roll under test are
    # created out of increasing order
    layer = draw(st.sampled_from([None, ['group_by', 2], ['group_by', 3], ['roll', 3, 2], ['roll', 2, 3], ['split', 'div', 3], ['split', 'mod', 2],
                                  'gb+roll32', 'gb+roll41']))
    items = draw(st.lists(st.integers(-8, 8), min_size=draw(st.sampled_from([0, 2, 6, 10])), max_size=24))
    return {'w': w, 's': s, 'p': p, 'layer': layer, 'items': items}


def check_model(case):
    w, s, p, layer, items = case['w'], case['s'], case['p'], case['layer'], case['items']
    node = ['roll', w, s, p]
    layers = {'gb+roll32': [['group_by', 2], ['roll', 3, 2]], 'gb+roll41': [['group_by', 2], ['roll', 4, 1]]}.get(layer if isinstance(layer, str) else None,
                                                                                                              [layer] if layer else [])
    full = c02.wrap_ast(layers, [node])
    exp, _ = H.model_events(full, items, 'mux')
    r = drive.store(items, A.build_pipeline(full, A.Env()))
    ctx = {'pipeline': full, 'items': items}
    H.require_clean(r, 'roll pipeline', **ctx)
    expv = [v for _, v in exp]
    if not cmp.same_seq(r.items, expv, approx=True):
        raise Violation('roll pipeline output differs from the reference model', expected=expv, got=r.items, **ctx)
    nt = len(items) >= w + s and -(-w // s) >= 2
    return {'nontrivial': nt, 'labels': ['layer:' + (layer if isinstance(layer, str) else (layer[0] if layer else 'none'))] + H.labels_of(p)}


def subs(tier):
    return [
        Sub('enum', check_enum, enum=enum, doc='bounded-exhaustive (window, stride, length): contents, opening points, closing order/time'),
        Sub('keyed', check_keyed, gen=keyed_case, examples={'quick': 1500, 'thorough': 150000},
            doc='roll under group_by with interleaved keys / nested in roll / split: the same window checks per parent key lifetime'),
        Sub('model', check_model, gen=model_case, examples={'quick': 1500, 'thorough': 150000},
            doc='roll with arbitrary inner pipelines, alone / under group_by / roll / split, vs reference model (whole output sequence)'),
    ]
