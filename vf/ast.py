"""Pipeline AST: catalogue of node kinds, with for each

    accept(tin, node)        -> output item type, or None when the node does not fit
    build(node, env)         -> a FRESH rxsci operator (real code)
    model(node, ctx)         -> a FRESH reference-model Op (vf.model)

A pipeline is a list of nodes; a node is a JSON list [kind, *params]; container
nodes carry inner pipelines as params.  Item types: 'int', 'mono' (non-decreasing
non-negative ints; subtype of int), 'optint', 'float', 'pair', 'list', 'any'.
User functions come from small total, pure families shared by both sides.
"""
import datetime
import math
from array import array

import rx
import rxsci as rs

from vf import model as M

INTLIKE = ('int', 'mono')


class Env(object):
    """Per-build environment of the real pipeline (fresh per run)."""

    def __init__(self):
        self.actions = []


def isint(t):
    return t in INTLIKE


def demono(t):
    return 'int' if t == 'mono' else t


def listof(t):
    return 'list' if isint(t) else 'any'


# ---------------------------------------------------------------------------
# user function families (pure, total on their input type)

def f_add(c): return lambda x: x + c
def f_mul(c): return lambda x: x * c
def f_mod(m): return lambda x: x % m
def f_pair(m): return lambda x: (x, x % m)
def f_rep(k): return lambda x: [x + j for j in range(x % k)]
def f_none(m): return lambda x: None if x % m == 0 else x
def f_float(x): return x * 0.5
def p_mod(m, r): return lambda x: x % m != r
def p_mod_int(m, r): return lambda x: (x - r) % m          # the same condition as a truthy / falsy NUMBER (1, 2, 0), not a bool
def p_gt(c): return lambda x: x > c
def p_notnone(x): return x is not None
def p_false(x): return False
def p_true(x): return True
def p2_true(a, b): return True
def k_div(d): return lambda x: x // d


def acc_sum(a, x): return a + x
def acc_fsum(a, x): return a + x
def acc_or(c): return lambda a, x: bool(a or x > c)
def acc_minmax(a, x): return (min(a[0], x), max(a[1], x))
def acc_abs(a, x): return a + abs(x)
def term_101(a): return a * 10 + 1


def acc_concat(a, x):
    return a + [x]


def acc_append(a, x):
    a.append(x)
    return a


def acc_nested(a, x):         # the seed [[]] given BY VALUE: a container that holds the mutable part one level down
    a[0].append(x)
    return a


def term_nested(a): return list(a[0])


def clipf(lo, hi):
    if lo is None and hi is None:
        return lambda i: i
    if lo is not None and hi is not None:
        return lambda i: max(min(i, hi), lo)
    if lo is None:
        return lambda i: min(i, hi)
    return lambda i: max(i, lo)


# group keys / distinct keys: unequal values with EQUAL hashes in CPython (-1/-2, 0/2**61-1) plus a tuple and a float variant
SHARED_NAN = float('nan')


class _Tok(object):
    def __init__(self, n):
        self.n = n

    def __repr__(self):
        return 'Tok(%d)' % self.n

    def __deepcopy__(self, memo):
        return self


SPLIT_TOKENS = [_Tok(0), _Tok(1), _Tok(2)]
GKEYS = [-1, -2, ('a', -1), ('a', -2), 2 ** 61 - 1, 0, 'x']      # pairwise unequal; (-1,-2), the two tuples and (2**61-1, 0) hash alike


def f_gkey(m):
    if m == 4:
        # group values None and NaN side by side.  The NaN is a FRESH object per call: it equals nothing, itself included, so
        # every such item is a group of its own (a shared NaN object is found by identity in the implementation's dict and
        # would make "equal by ==" ambiguous: not generated)
        return lambda x: [None, float('nan'), -1, None][x % 4]
    return lambda x: GKEYS[x % m]


def as_arg(ops, node):
    """A pipeline argument may be given as a list of operators or as one composed operator (rx.pipe): alternate
    deterministically between the two documented forms."""
    return list(ops) if len(repr(node)) % 2 == 0 else rx.pipe(*ops)


def twice(make):
    """Construct an operator twice from the same arguments (the first result is thrown away): a constructor that mutates
    the pipeline list it is given, or keeps state between constructions, shows in the second one."""
    make()
    return make()


def splitf(kind, d):
    if kind == 'nonemod':       # a criterion that is None for some items (a missing field)
        return lambda x: None if x % d == 0 else x % d
    if kind == 'bigf':          # float criteria one unit apart at a large magnitude (epoch seconds)
        return lambda x: 1.7e9 + (x // d)
    if kind == 'tokdiv':        # runs of items share ONE identity-compared criterion object (a device / session object)
        return lambda x: SPLIT_TOKENS[(x // d) % 3]
    if kind == 'nanmod':        # ONE shared NaN object as the criterion of many items: it differs from itself, every item is a run
        return lambda x: SHARED_NAN if x % d == 0 else x % d
    if kind == 'gkey':          # consecutive ints map to unequal criteria with EQUAL hashes (-1 / -2, ('a',-1) / ('a',-2), 0 / 2**61-1)
        return lambda x: GKEYS[x % len(GKEYS)]
    return k_div(d) if kind == 'div' else f_mod(d)


T0 = datetime.datetime(2021, 3, 4, 5, 6, 7)


def to_dt(i):
    """int seconds -> datetime (time_split is documented on datetime / timedelta)"""
    return T0 + datetime.timedelta(milliseconds=200 * i)       # sub-second parts: exact microsecond arithmetic matters


def to_td(n):
    return None if n is None else datetime.timedelta(milliseconds=200 * n)


def closingf(c):
    if c is None:
        return None
    m, r = c
    return lambda x: x % m == r


# ---------------------------------------------------------------------------
# catalogue

KINDS = {}


class Kind(object):
    dual = True          # accepts Observable and MuxObservable
    stateful = False
    ct = False           # completion-triggered output
    early = False        # take / first
    window = False
    container = False

    def accept(self, tin, node):
        raise NotImplementedError

    def is_ct(self, node):
        return self.ct

    def is_stateful(self, node):
        return self.stateful

    def inner(self, node):
        """inner pipelines of a container node"""
        return []


def kind(name, **flags):
    def deco(cls):
        k = cls()
        k.name = name
        for f, v in flags.items():
            setattr(k, f, v)
        KINDS[name] = k
        return cls
    return deco


def simple(name, tins, tout, build, model, **flags):
    """Register a kind whose typing is a fixed table."""
    class _K(Kind):
        def accept(self, tin, node):
            if tins != '*' and tin not in tins:
                return None
            if callable(tout):
                return tout(tin, node)
            return tout if tout != '=' else tin
    _K.build = staticmethod(build)
    _K.model = staticmethod(model)
    k = _K()
    k.name = name
    for f, v in flags.items():
        setattr(k, f, v)
    KINDS[name] = k
    return k


def same_demono(tin, node):
    return demono(tin)


# per-item -------------------------------------------------------------------
simple('map_add', INTLIKE, 'int', lambda n, e: rs.ops.map(f_add(n[1])), lambda n, c: M.Map(f_add(n[1])))
simple('map_mul', INTLIKE, 'int', lambda n, e: rs.ops.map(f_mul(n[1])), lambda n, c: M.Map(f_mul(n[1])))
simple('map_mod', INTLIKE, 'int', lambda n, e: rs.ops.map(f_mod(n[1])), lambda n, c: M.Map(f_mod(n[1])))
simple('map_pair', INTLIKE, 'pair', lambda n, e: rs.ops.map(f_pair(n[1])), lambda n, c: M.Map(f_pair(n[1])))
simple('map_rep', INTLIKE, 'list', lambda n, e: rs.ops.map(f_rep(n[1])), lambda n, c: M.Map(f_rep(n[1])))
simple('map_none', INTLIKE, 'optint', lambda n, e: rs.ops.map(f_none(n[1])), lambda n, c: M.Map(f_none(n[1])))
simple('map_float', INTLIKE, 'float', lambda n, e: rs.ops.map(f_float), lambda n, c: M.Map(f_float))
simple('starmap_add', ('pair',), 'int', lambda n, e: rs.ops.starmap(lambda a, b: a + b), lambda n, c: M.Map(lambda t: t[0] + t[1]))
simple('filter_mod', INTLIKE, '=', lambda n, e: rs.ops.filter(p_mod_int(n[1], n[2]) if len(n) > 3 and n[3] == 'int' else p_mod(n[1], n[2])),
       lambda n, c: M.Filter(p_mod(n[1], n[2])))
simple('filter_gt', INTLIKE, '=', lambda n, e: rs.ops.filter(p_gt(n[1])), lambda n, c: M.Filter(p_gt(n[1])))
simple('filter_notnone', ('optint',), 'int', lambda n, e: rs.ops.filter(p_notnone), lambda n, c: M.Filter(p_notnone))
simple('filter_false', '*', '=', lambda n, e: rs.ops.filter(p_false), lambda n, c: M.Filter(p_false))
simple('flat_map', ('list', 'pair'), 'int', lambda n, e: rs.ops.flat_map(), lambda n, c: M.FlatMap())
simple('clip', INTLIKE + ('float',), same_demono, lambda n, e: rs.data.clip(n[1], n[2]), lambda n, c: M.Map(clipf(n[1], n[2])))
simple('fill_none', ('optint',), 'int', lambda n, e: rs.data.fill_none(n[1]), lambda n, c: M.Map(lambda x: n[1] if x is None else x))
simple('identity', '*', '=', lambda n, e: rs.ops.identity(), lambda n, c: M.Op())
simple('do_action', '*', '=', lambda n, e: rs.ops.do_action(on_next=lambda i: e.actions.append(M.snap(i))), lambda n, c: M.DoAction(c))
simple('assert_true', '*', '=', lambda n, e: rs.ops.assert_(p_true), lambda n, c: M.Op())
simple('assert1_true', '*', '=', lambda n, e: rs.ops.assert_1(p2_true), lambda n, c: M.Op(), stateful=True)
simple('progress', '*', '=', lambda n, e: rs.ops.progress('p', n[1], measure_throughput=False),
       lambda n, c: M.Progress(c, 'p', n[1]), stateful=True)


# raising asserts (only inserted explicitly by the checks that want failures) -----
def p2_le(a, b): return a <= b + 3
simple('assert_mod', INTLIKE, '=', lambda n, e: rs.ops.assert_(p_mod_int(n[1], n[2]) if len(n) > 3 and n[3] == 'int' else p_mod(n[1], n[2]), name='a'),
       lambda n, c: M.Op())
simple('assert1_le', INTLIKE, '=', lambda n, e: rs.ops.assert_1(p2_le, name='b'), lambda n, c: M.Op(), stateful=True)


# folds ----------------------------------------------------------------------
def _reduce_flag(pos):
    return lambda self, node: bool(node[pos])


def fold(name, tins, tout, build, model, reduce_pos=1, **flags):
    k = simple(name, tins, tout, build, model, stateful=True, **flags)
    if reduce_pos is not None:
        k.is_ct = (lambda node, _p=reduce_pos: bool(node[_p]))
    return k


fold('scan_sum', INTLIKE, 'int', lambda n, e: rs.ops.scan(acc_sum, 0, reduce=n[1]),
     lambda n, c: M.Scan(acc_sum, lambda: 0, n[1]))
fold('scan_fsum', INTLIKE + ('float',), 'float', lambda n, e: rs.ops.scan(acc_fsum, 0.0, reduce=n[1]),
     lambda n, c: M.Scan(acc_fsum, lambda: 0.0, n[1]))
fold('scan_or', INTLIKE, 'int', lambda n, e: rs.ops.scan(acc_or(n[1]), False),
     lambda n, c: M.Scan(acc_or(n[1]), lambda: False), reduce_pos=None)
fold('scan_minmax', INTLIKE, 'any', lambda n, e: rs.ops.scan(acc_minmax, (0, 0), reduce=n[1]),
     lambda n, c: M.Scan(acc_minmax, lambda: (0, 0), n[1]))
# the mutating accumulator (append-and-return, as to_list does) is used with reduce=True, where the object is
# emitted once and never touched again; the streaming variant builds a new list per item: a streaming scan
# that re-emits one live object lets downstream operators that keep it (last, first, lag, tee queues) observe
# later mutations, which makes their output depend on *when* they emit -- an aliasing artefact of such
# accumulators (RxPY's scan has it too), not behaviour any listed property speaks about.  C09 covers the
# mutating streaming case with the observer directly behind the scan.
SCALAR = INTLIKE + ('optint', 'float', 'pair')
# streaming scan_list only over scalars: stacking it squares the output size per level
fold('scan_list', '*', lambda t, n: listof(t) if (n[2] or t in SCALAR) else None,
     lambda n, e: (rs.ops.scan(acc_nested, [[]], reduce=True, terminator=term_nested) if n[1] == 'nested' and n[2] else
                   rs.ops.scan(acc_append if n[2] else acc_concat, list if n[1] == 'factory' else [], reduce=n[2])),
     lambda n, c: M.Scan(acc_append if n[2] else acc_concat, list, n[2]), reduce_pos=2)
# the streaming MUTATING variant (one live list re-emitted for every item): never drawn by the generators; C01 appends it,
# followed by to_list, to pipelines without take / first / tee, where both execution modes emit at the same moments
fold('scan_list_mut', '*', lambda t, n: listof(t), lambda n, e: rs.ops.scan(acc_append, list, reduce=False),
     lambda n, c: M.Scan(acc_append, list, False), reduce_pos=None)
fold('scan_term', INTLIKE, 'int', lambda n, e: rs.ops.scan(acc_sum, 0, reduce=n[1], terminator=term_101),
     lambda n, c: M.Scan(acc_sum, lambda: 0, n[1], term_101), reduce_pos=None, ct=True)
fold('scan_abs', INTLIKE, 'mono', lambda n, e: rs.ops.scan(acc_abs, 0), lambda n, c: M.Scan(acc_abs, lambda: 0),
     reduce_pos=None)
fold('count', '*', lambda t, n: 'int' if n[1] else 'mono', lambda n, e: rs.ops.count(reduce=n[1]),
     lambda n, c: M.Prefix(len, n[1], lambda: 0))


def _lsum(xs):
    s = 0.0
    for x in xs:
        s = s + x
    return s


def _lmean(xs):
    s = 0
    for x in xs:
        s = s + x
    return s / len(xs)


NUM = INTLIKE + ('float',)
fold('sum', NUM, 'float', lambda n, e: rs.math.sum(reduce=n[1]), lambda n, c: M.Prefix(_lsum, n[1], lambda: 0.0))
fold('mean', NUM, 'float', lambda n, e: rs.math.mean(reduce=n[1]),
     lambda n, c: M.EmptyGuard(c, 'mean', M.Prefix(_lmean, n[1], lambda: None)) if n[1] else M.Prefix(_lmean, False))
fold('min', NUM, lambda t, n: ('optint' if isint(t) else 'any') if n[1] else demono(t),
     lambda n, e: rs.math.min(reduce=n[1]), lambda n, c: M.Prefix(min, n[1], lambda: None))
fold('max', NUM, lambda t, n: ('optint' if isint(t) else 'any') if n[1] else demono(t),
     lambda n, e: rs.math.max(reduce=n[1]), lambda n, c: M.Prefix(max, n[1], lambda: None))
fold('variance', NUM, 'float', lambda n, e: rs.math.variance(reduce=n[1]),
     lambda n, c: M.Prefix(lambda xs: M.exact_var(xs, 1), n[1], lambda: 0.0))
fold('stddev', NUM, 'float', lambda n, e: rs.math.stddev(reduce=n[1]),
     lambda n, c: M.Prefix(lambda xs: math.sqrt(M.exact_var(xs, 1)), n[1], lambda: 0.0))
fold('fvariance', NUM, 'float', lambda n, e: rs.math.formal.variance(reduce=n[1]),
     lambda n, c: M.Prefix(lambda xs: M.exact_var(xs, 0), n[1], lambda: 0.0))
fold('fstddev', NUM, 'float', lambda n, e: rs.math.formal.stddev(reduce=n[1]),
     lambda n, c: M.Prefix(lambda xs: math.sqrt(M.exact_var(xs, 0)), n[1], lambda: 0.0))

# sequence -------------------------------------------------------------------
simple('first', '*', '=', lambda n, e: rs.ops.first(), lambda n, c: M.EmptyGuard(c, 'first', M.First(c)), stateful=True, early=True)
simple('last', '*', '=', lambda n, e: rs.ops.last(), lambda n, c: M.EmptyGuard(c, 'last', M.Last()), stateful=True, ct=True)
simple('take', '*', '=', lambda n, e: rs.ops.take(n[1]), lambda n, c: M.Take(c, n[1]), stateful=True, early=True)
simple('to_list', '*', lambda t, n: listof(t), lambda n, e: rs.data.to_list(), lambda n, c: M.Scan(acc_append, list, True),
       stateful=True, ct=True)
def _to_array_build(n, e):
    tc = n[1] if len(n) > 1 else 'q'
    if tc == 'u':           # the character typecode: items are one-character strings
        return rx.pipe(rs.ops.map(lambda x: chr(97 + x % 26)), rs.data.to_array('u'))
    return rs.data.to_array(tc)


def _to_array_model(n, c):
    tc = n[1] if len(n) > 1 else 'q'
    scan = M.Scan(acc_append, lambda: array(tc), True)
    return M.Chain(c, [M.Map(lambda x: chr(97 + x % 26)), scan]) if tc == 'u' else scan


simple('to_array', INTLIKE, 'list', _to_array_build, _to_array_model, stateful=True, ct=True)
simple('to_list_ll', INTLIKE, 'any', lambda n, e: rx.pipe(rs.ops.map(lambda x: [x] * (x % 3)), rs.data.to_list()),
       lambda n, c: M.Chain(c, [M.Map(lambda x: [x] * (x % 3)), M.Scan(acc_append, list, True)]), stateful=True, ct=True)     # the items are lists themselves (also empty ones)
simple('batch', '*', lambda t, n: listof(t), lambda n, e: rs.data.batch(n[1]), lambda n, c: M.Batch(n[1]), stateful=True, ct=True)


def _duc_accept(tin, node):
    if node[1]:
        return tin if isint(tin) else None
    return tin


simple('duc', '*', _duc_accept,
       lambda n, e: rs.ops.distinct_until_changed(f_mod(n[1]) if n[1] else None),
       lambda n, c: M.DistinctUntilChanged(f_mod(n[1]) if n[1] else None), stateful=True)

# mux only -------------------------------------------------------------------
HASHABLE = INTLIKE + ('optint', 'pair')


def _distinct_accept(tin, node):
    if tin not in HASHABLE:
        return None
    if node[1] and not isint(tin):
        return None
    return tin


simple('distinct', '*', _distinct_accept, lambda n, e: rs.ops.distinct(f_gkey(n[1]) if n[1] else None),
       lambda n, c: M.Distinct(f_gkey(n[1]) if n[1] else None), stateful=True, dual=False)
simple('lag', '*', lambda t, n: 'pair' if isint(t) else 'any', lambda n, e: rs.data.lag(n[1], data_type={'float': float, 'int': int}[n[2]]) if len(n) > 2 and n[2] else rs.data.lag(n[1]),
       lambda n, c: M.Lag(n[1]),
       stateful=True, dual=False)


def _pad_accept(tin, node):
    if node[2] is None:
        return tin
    if not isint(tin):
        return None
    return 'int'


simple('pad_start', '*', _pad_accept, lambda n, e: rs.data.pad_start(n[1], n[2]), lambda n, c: M.PadStart(n[1], n[2]),
       stateful=True, dual=False)
simple('pad_end', '*', lambda t, n: (t if n[2] is None else ('int' if isint(t) else None)),
       lambda n, e: rs.data.pad_end(n[1], n[2]), lambda n, c: M.PadEnd(n[1], n[2]), stateful=True, dual=False, ct=True)
simple('start_with', INTLIKE, 'int', lambda n, e: rs.ops.start_with(list(n[1])), lambda n, c: M.StartWith(n[1]),
       stateful=True, dual=False)


# containers -----------------------------------------------------------------
def type_of(pipeline, tin):
    """Output type of a pipeline, or None if ill-typed."""
    t = tin
    for node in pipeline:
        k = KINDS.get(node[0])
        if k is None:
            return None
        t = k.accept(t, node)
        if t is None:
            return None
    return t


def build_pipeline(pipeline, env):
    return [KINDS[n[0]].build(n, env) for n in pipeline]


def model_chain(pipeline, ctx):
    return M.Chain(ctx, [KINDS[n[0]].model(n, ctx) for n in pipeline])


class _Container(Kind):
    container = True
    stateful = True
    window = True
    dual = False
    inner_pos = -1

    def inner(self, node):
        return [node[self.inner_pos]]

    def is_ct(self, node):
        return True   # partial windows / groups are flushed at completion


@kind('group_by')
class _GroupBy(_Container):
    def accept(self, tin, node):
        if not isint(tin):
            return None
        t = type_of(node[2], tin)
        return demono(t) if t else None

    def build(self, n, e):
        inner = as_arg(build_pipeline(n[2], e), n)
        return twice(lambda: rs.ops.group_by(f_gkey(n[1]), inner))

    def model(self, n, c):
        return M.GroupBy(f_gkey(n[1]), lambda: model_chain(n[2], c))


@kind('roll')
class _Roll(_Container):
    def accept(self, tin, node):
        t = type_of(node[3], tin)
        return demono(t) if t else None

    def build(self, n, e):
        inner = as_arg(build_pipeline(n[3], e), n)
        w, st_ = n[1], n[2]
        if (n[1] * 7 + n[2] * 3 + len(n[3])) % 5 == 0:
            # sizes as they come out of numpy / pandas computations (comparisons with them return numpy.bool_)
            import numpy
            w, st_ = numpy.int64(w), numpy.int64(st_)
        return twice(lambda: rs.data.roll(w, st_, inner))

    def model(self, n, c):
        return M.Roll(c, n[1], n[2], lambda: model_chain(n[3], c))


@kind('split')
class _Split(_Container):
    def accept(self, tin, node):
        if not isint(tin):
            return None
        t = type_of(node[3], tin)
        return demono(t) if t else None

    def build(self, n, e):
        inner = as_arg(build_pipeline(n[3], e), n)
        return twice(lambda: rs.data.split(splitf(n[1], n[2]), inner))

    def model(self, n, c):
        return M.Split(splitf(n[1], n[2]), lambda: model_chain(n[3], c))


@kind('time_split')
class _TimeSplit(_Container):
    # ['time_split', active, inactive, closing, include, inner]
    def accept(self, tin, node):
        if tin != 'mono':
            return None
        t = type_of(node[5], tin)
        return demono(t) if t else None

    def build(self, n, e):
        inner = as_arg(build_pipeline(n[5], e), n)
        rs.data.time_split(time_mapper=to_dt, active_timeout=to_td(7), inactive_timeout=None, pipeline=inner)    # see twice()
        return rs.data.time_split(
            time_mapper=to_dt, active_timeout=to_td(n[1]), inactive_timeout=to_td(n[2]),
            closing_mapper=closingf(n[3]), include_closing_item=n[4],
            pipeline=inner)

    def model(self, n, c):
        return M.TimeSplit(lambda i: i, n[1], n[2], closingf(n[3]), n[4], lambda: model_chain(n[5], c))


@kind('tee')
class _Tee(Kind):
    # ['tee', join, [branch pipelines]]
    container = True
    dual = True

    def inner(self, node):
        return list(node[2])

    def accept(self, tin, node):
        ts = [type_of(b, tin) for b in node[2]]
        if any(t is None for t in ts):
            return None
        ts = [demono(t) for t in ts]
        if node[1] == 'merge':
            return ts[0] if all(t == ts[0] for t in ts) else 'any'
        if node[1] == 'zip' and len(ts) == 2 and all(t == 'int' for t in ts):
            return 'pair'
        return 'any'

    def is_stateful(self, node):
        return node[1] != 'merge' or any(pipeline_stateful(b) for b in node[2])

    def is_ct(self, node):
        return any(pipeline_ct(b) for b in node[2])

    def build(self, n, e):
        branches = [(as_arg(build_pipeline(b, e), b) if b else rs.ops.identity()) for b in n[2]]
        return twice(lambda: rs.ops.tee_map(*branches, join=n[1]))

    def model(self, n, c):
        return M.Tee(c, [model_chain(b, c) for b in n[2]], n[1])


# ---------------------------------------------------------------------------
# pipeline predicates

def walk(pipeline):
    for node in pipeline:
        yield node
        for inner in KINDS[node[0]].inner(node):
            for x in walk(inner):
                yield x


def pipeline_stateful(pipeline):
    return any(KINDS[n[0]].is_stateful(n) for n in pipeline)


def pipeline_ct(pipeline):
    return any(KINDS[n[0]].is_ct(n) for n in pipeline)


def pipeline_dual(pipeline):
    return all(KINDS[n[0]].dual for n in walk(pipeline))


def kinds_in(pipeline):
    return sorted({n[0] for n in walk(pipeline)})


def depth(pipeline):
    d = 0
    for n in pipeline:
        inn = KINDS[n[0]].inner(n)
        if inn:
            d = max(d, 1 + max(depth(i) for i in inn))
    return d


def size(pipeline):
    return sum(1 for _ in walk(pipeline))
