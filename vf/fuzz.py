"""Coverage-guided byte-level campaigns (atheris / libFuzzer) for the byte- and text-level properties.

    python vf/fuzz.py <target> <outdir> [libFuzzer args: -runs=N -seed=S <corpus dir>]

One in-process entry function per target.  The libFuzzer bytes are decoded with
FuzzedDataProvider into the SAME structured, JSON-able case the Hypothesis sub-checks use,
and the SAME check function (round-trip oracle inside) judges it, so a crash file is
immediately a replayable case.  rxsci keeps no state between subscriptions, so iterations
are independent.  On a Violation the case is written to <outdir>/violation.json and the
process exits with status 1; progress counters go to <outdir>/stats.json.
"""
import os
import sys

# run as a script: the script directory (vf/) must not be on sys.path -- vf/ast.py would shadow the stdlib module
if sys.path and os.path.abspath(sys.path[0]) == os.path.dirname(os.path.abspath(__file__)):
    sys.path.pop(0)
import json  # noqa: E402

HERE = os.path.dirname(os.path.dirname(os.path.abspath(__file__)))


def _setup_path():
    repo = os.environ.get('VERIF_REPO', '/repo')
    for p in (repo, HERE, os.path.join(HERE, '.deps')):
        if p not in sys.path:
            sys.path.insert(0, p) if p != os.path.join(HERE, '.deps') else sys.path.append(p)


_setup_path()
import atheris  # noqa: E402

with atheris.instrument_imports(include=['rxsci']):
    import rxsci  # noqa: F401,E402
    import rxsci.framing.line  # noqa
    import rxsci.framing.length_prefix  # noqa
    import rxsci.compression.z  # noqa
    import rxsci.compression.zstd  # noqa
    import rxsci.data.codec  # noqa
    import rxsci.container.csv  # noqa
    import rxsci.container.json  # noqa

from vf.core import Violation, Reject, jsonable, case_hash  # noqa: E402
from vf.props import c15, c16, c17, c18, c19  # noqa: E402

ALPHA = ['a', 'b', ' ', '"', '\\', ',', ';', '|', '\t', ':', '~', '\r', '0', '-', '.', 'e', chr(0xe9), chr(0x20ac), chr(0x1F600),
         chr(0x2028), chr(0x85), "'", '\x00']


def text(fdp, maxlen, alphabet=ALPHA, no=()):
    n = fdp.ConsumeIntInRange(0, maxlen)
    out = []
    for _ in range(n):
        c = alphabet[fdp.ConsumeIntInRange(0, len(alphabet) - 1)]
        if c not in no:
            out.append(c)
    return ''.join(out)


def t_c15_line(fdp):
    items = [text(fdp, 6) for _ in range(fdp.ConsumeIntInRange(0, 5))]
    tail = text(fdp, 4) if fdp.ConsumeBool() else ''
    total = sum(len(i) + 1 for i in items) + len(tail)
    cuts = sorted(fdp.ConsumeIntInRange(0, total) for _ in range(fdp.ConsumeIntInRange(0, 6)))
    return 'line', c15.check_line, {'items': items, 'tail': tail, 'cuts': cuts}


def t_c15_lp(fdp):
    p = [1, 2, 4, 8][fdp.ConsumeIntInRange(0, 3)]
    order = 'little' if fdp.ConsumeBool() else 'big'
    items = [fdp.ConsumeBytes(fdp.ConsumeIntInRange(0, 9)) for _ in range(fdp.ConsumeIntInRange(0, 5))]
    total = sum(len(i) + p for i in items)
    cuts = sorted(fdp.ConsumeIntInRange(0, total) for _ in range(fdp.ConsumeIntInRange(0, 6)))
    trunc = fdp.ConsumeIntInRange(0, total) if fdp.ConsumeBool() else None
    return 'lp', c15.check_lp, {'items': [i.hex() for i in items], 'prefix': p, 'order': order, 'cuts': cuts, 'trunc': trunc}


def t_c16(fdp):
    codec = 'gzip' if fdp.ConsumeBool() else 'zstd'
    chunks = [[fdp.ConsumeIntInRange(0, 400), c16.KINDS[fdp.ConsumeIntInRange(0, 3)], fdp.ConsumeIntInRange(0, 50)]
              for _ in range(fdp.ConsumeIntInRange(0, 3))]
    cuts = sorted([0, 1000000, 500000][fdp.ConsumeIntInRange(0, 2)] if fdp.ConsumeBool() else fdp.ConsumeIntInRange(0, 1000000)
                  for _ in range(fdp.ConsumeIntInRange(0, 5)))
    return 'roundtrip', c16.check_roundtrip, {'codec': codec, 'chunks': chunks, 'cuts': cuts}


def t_c17(fdp):
    enc = c17.ENCODINGS[fdp.ConsumeIntInRange(0, len(c17.ENCODINGS) - 1)]
    alpha = [chr(c) for c in (0x61, 0x20, 0xe9, 0xff, 0x80, 0x0a)] if enc == 'latin-1' else \
        ALPHA + [chr(0x10348), chr(0x301), chr(0xfeff), chr(0xffff), chr(0x7ff), chr(0x800)]
    strings = [text(fdp, 5, alpha) for _ in range(fdp.ConsumeIntInRange(0, 4))]
    total = len(''.join(strings).encode(enc))
    cuts = sorted(fdp.ConsumeIntInRange(0, total) for _ in range(fdp.ConsumeIntInRange(0, 6)))
    return 'chunked', c17.check, {'enc': enc, 'strings': strings, 'cuts': cuts}


def t_c18(fdp):
    sep = c18.SEPS[fdp.ConsumeIntInRange(0, len(c18.SEPS) - 1)]
    esc = c18.ESCS[fdp.ConsumeIntInRange(0, 1)]
    ncol = fdp.ConsumeIntInRange(1, 4)
    types = [c18.TYPES[fdp.ConsumeIntInRange(0, 3)] for _ in range(ncol)]
    rows = []
    for _ in range(fdp.ConsumeIntInRange(1, 3)):
        row = []
        for t in types:
            if t == 'int':
                row.append(fdp.ConsumeIntInRange(-10 ** 6, 10 ** 6))
            elif t == 'float':
                f = fdp.ConsumeFloat()
                row.append(f if f == f and abs(f) != float('inf') else 0.5)
            elif t == 'bool':
                row.append(fdp.ConsumeBool())
            else:
                row.append(text(fdp, 7, ALPHA + [sep], no=('\n',)))
        rows.append(row)
    return 'memory', c18.check_memory, {'sep': sep, 'esc': esc, 'types': types, 'rows': rows}


def _json_value(fdp, depth):
    k = fdp.ConsumeIntInRange(0, 7 if depth < 2 else 5)
    if k == 0:
        return None
    if k == 1:
        return fdp.ConsumeBool()
    if k == 2:
        return fdp.ConsumeIntInRange(-2 ** 63, 2 ** 63 - 1)
    if k == 3:
        f = fdp.ConsumeFloat()
        return f if f == f and abs(f) != float('inf') else -0.0
    if k in (4, 5):
        return text(fdp, 6, ALPHA + ['\n', chr(0x2029)])
    if k == 6:
        return [_json_value(fdp, depth + 1) for _ in range(fdp.ConsumeIntInRange(0, 3))]
    return {text(fdp, 3, ALPHA + ['\n']): _json_value(fdp, depth + 1) for _ in range(fdp.ConsumeIntInRange(0, 3))}


def t_c19(fdp):
    items = [{text(fdp, 3, ALPHA + ['\n']): _json_value(fdp, 0) for _ in range(fdp.ConsumeIntInRange(0, 3))}
             for _ in range(fdp.ConsumeIntInRange(0, 3))]
    return 'memory', c19.check_memory, {'items': items}


TARGETS = {'c15_line': ('C15', t_c15_line), 'c15_lp': ('C15', t_c15_lp), 'c16': ('C16', t_c16), 'c17': ('C17', t_c17),
           'c18': ('C18', t_c18), 'c19': ('C19', t_c19)}


def main():
    target, outdir = sys.argv[1], sys.argv[2]
    pid, decode = TARGETS[target]
    os.makedirs(outdir, exist_ok=True)
    stats = {'target': target, 'runs': 0, 'nontrivial': 0, 'rejected': 0, 'samples': []}
    seen = set()
    limits = set()
    for a in sys.argv[3:]:
        if a.startswith('-runs='):
            n = int(a[6:])
            limits = {n - 2, n - 1, n, n + 1, n + 2}

    def flush():
        stats['hashes'] = sorted(seen)
        with open(os.path.join(outdir, 'stats.json'), 'w') as f:
            json.dump(stats, f)

    def one(data):
        fdp = atheris.FuzzedDataProvider(data)
        sub, check, case = decode(fdp)
        stats['runs'] += 1
        try:
            info = check(case)
        except Reject:
            stats['rejected'] += 1
            return
        except Violation as v:
            with open(os.path.join(outdir, 'violation.json'), 'w') as f:
                json.dump({'property': pid, 'sub': sub, 'case': case, 'message': v.msg, 'details': jsonable(v.details)}, f, default=repr)
            flush()
            sys.stdout.flush()
            os._exit(1)
        if info and info.get('nontrivial'):
            h = case_hash(case)
            if h not in seen:
                seen.add(h)
                stats['nontrivial'] = len(seen)
                if len(stats['samples']) < 2:
                    stats['samples'].append(case)
        if stats['runs'] % 5000 == 0 or stats['runs'] in limits:
            flush()

    import io
    import contextlib
    atheris.Setup([sys.argv[0]] + sys.argv[3:], one)
    try:
        atheris.Fuzz()
    finally:
        flush()


if __name__ == '__main__':
    main()
