"""Protocol monitor for C03: every observer a rs.MuxObservable is subscribed with is
wrapped, so each call an operator makes on its downstream is checked against the
mux lifecycle (create, items, exactly one completion; unique live slot indices)."""
import os
import sys

import rxsci as rs
import rxsci.mux.muxobservable as _mo

_SKIP = ('muxobservable.py', 'muxconnectable.py')


class Recorder(object):
    def __init__(self):
        self.violations = []      # dicts
        self.boundaries = {}      # label -> max keys created on one subscription
        self.subscriptions = 0

    def reset(self):
        self.violations = []
        self.boundaries = {}
        self.subscriptions = 0


REC = Recorder()
_installed = [False]


def _label():
    f = sys._getframe(2)
    while f is not None and os.path.basename(f.f_code.co_filename) in _SKIP + ('monitor.py',):
        f = f.f_back
    if f is None:
        return '?'
    fn = f.f_code.co_filename
    for root in (os.environ.get('VERIF_REPO', '/repo'), '/verif'):
        if fn.startswith(root.rstrip('/') + '/'):
            fn = fn[len(root.rstrip('/')) + 1:]
    return '%s:%d' % (fn, f.f_lineno)


class _Mon(object):
    __slots__ = ('obs', 'label', 'live', 'ended', 'created')

    def __init__(self, obs, label):
        self.obs = obs
        self.label = label
        self.live = {}
        self.ended = False
        self.created = 0

    def _bad(self, what, event):
        if len(REC.violations) < 5:
            REC.violations.append({'boundary': self.label, 'what': what, 'event': repr(event)[:200],
                                   'live': {str(k): repr(v) for k, v in self.live.items()}})

    def on_next(self, i):
        t = type(i)
        if self.ended and t in (rs.OnCreateMux, rs.OnNextMux, rs.OnCompletedMux, rs.OnErrorMux):
            self._bad('event after the stream ended', i)
        if t is rs.OnNextMux or t is rs.OnErrorMux:
            k = i.key
            if self.live.get(k[0], None) != k:
                self._bad('item/error for a key that is not live', i)
        elif t is rs.OnCreateMux:
            k = i.key
            if k[0] in self.live:
                self._bad('creation of a key whose slot index is live' if self.live[k[0]] != k else 'second creation of a live key', i)
            self.live[k[0]] = k
            self.created += 1
            if self.created > REC.boundaries.get(self.label, 0):
                REC.boundaries[self.label] = self.created
        elif t is rs.OnCompletedMux:
            k = i.key
            if self.live.get(k[0], None) != k:
                self._bad('completion of a key that is not live', i)
            else:
                del self.live[k[0]]
        self.obs.on_next(i)

    def on_error(self, e):
        self.ended = True
        self.obs.on_error(e)

    def on_completed(self):
        if self.ended:
            # a repeated on_completed is not judged: tee_map forwards the completion of EVERY branch (visible at this level only
            # when the source emits inside subscribe(), otherwise the first one disposes the other branches); rx's
            # AutoDetachObserver absorbs the repeats and C03 speaks about keys, not about the stream's own terminal event
            return
        if self.live:
            self._bad('stream completed while keys are live', None)
        self.ended = True
        self.obs.on_completed()


def install():
    if _installed[0]:
        return
    _installed[0] = True
    orig_init = _mo.MuxObservable.__init__

    def __init__(self, subscribe=None):
        label = _label()

        def monitored(observer, scheduler=None):
            REC.subscriptions += 1
            REC.boundaries.setdefault(label, 0)
            return subscribe(_Mon(observer, label), scheduler)
        orig_init(self, monitored)

    _mo.MuxObservable.__init__ = __init__
