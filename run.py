#!/venv/bin/python
"""Entry point of the rxsci property-based verification framework.

    run.py setup
    run.py check C05 [--tier quick|thorough] [--sub name ...] [--jobs N]
    run.py replay /verif/replays/C05-xxxxxxxxxxxx.json
    run.py list

Exit codes: 0 property held on everything explored; 1 violation (with a
`VIOLATION property=<id> replay=<path>` line); 2 harness / setup error.
"""
import os
import sys

VERIF = os.path.dirname(os.path.abspath(__file__))
WHEELS = '/opt/veriftools/wheels'
DEPS = os.path.join(VERIF, '.deps')


def _reexec_with_hashseed():
    if os.environ.get('PYTHONHASHSEED') != '0':
        env = dict(os.environ)
        env['PYTHONHASHSEED'] = '0'
        os.execve(sys.executable, [sys.executable] + sys.argv, env)


def _bootstrap(need_atheris=False):
    """Make hypothesis (and atheris when asked) importable, offline."""
    import subprocess
    if os.path.isdir(DEPS) and DEPS not in sys.path:
        sys.path.append(DEPS)
    missing = []
    try:
        import hypothesis  # noqa
    except ImportError:
        missing.append('hypothesis')
    if need_atheris:
        try:
            import atheris  # noqa
        except ImportError:
            missing.append('atheris')
    if missing:
        os.makedirs(DEPS, exist_ok=True)
        cmd = [sys.executable, '-m', 'pip', 'install', '--quiet', '--no-index',
               '--find-links', WHEELS, '--target', DEPS] + missing
        r = subprocess.run(cmd, stdout=subprocess.PIPE, stderr=subprocess.STDOUT)
        if r.returncode != 0:
            sys.stderr.write(r.stdout.decode(errors='replace'))
            return False
        if DEPS not in sys.path:
            sys.path.append(DEPS)
        import importlib
        importlib.invalidate_caches()
    return True


def _use_repo():
    repo = os.environ.get('VERIF_REPO', '/repo')
    sys.path.insert(0, repo)
    sys.path.insert(0, VERIF)
    import rxsci
    here = os.path.realpath(os.path.dirname(os.path.dirname(rxsci.__file__)))
    if here != os.path.realpath(repo):
        sys.stderr.write('HARNESS ERROR: rxsci imported from %s, expected %s\n' % (here, repo))
        sys.exit(2)


def main(argv):
    if len(argv) < 2:
        sys.stderr.write(__doc__)
        return 2
    cmd = argv[1]
    if cmd == 'setup':
        ok = _bootstrap(need_atheris=True)
        _use_repo()
        import hypothesis
        print('setup ok: hypothesis %s' % hypothesis.__version__)
        try:
            import atheris  # noqa
            print('atheris available')
        except ImportError:
            print('atheris NOT available (fuzz campaigns fall back to hypothesis)')
        return 0 if ok else 2
    _reexec_with_hashseed()
    os.environ['MAKI_NAGE_RXSCI_VERIF'] = '1'
    thorough = 'thorough' in argv or (os.environ.get('VERIF_TIER') == 'thorough' and '--tier' not in argv)
    if not _bootstrap(need_atheris=(cmd == 'check' and thorough)):
        sys.stderr.write('HARNESS ERROR: cannot install hypothesis offline\n')
        return 2
    _use_repo()
    from vf import core
    if cmd == 'check':
        import argparse
        ap = argparse.ArgumentParser()
        ap.add_argument('pid')
        ap.add_argument('--tier', default=os.environ.get('VERIF_TIER', 'quick'), choices=['quick', 'thorough'])
        ap.add_argument('--sub', action='append')
        ap.add_argument('--jobs', type=int)
        a = ap.parse_args(argv[2:])
        try:
            seed = int(os.environ.get('VERIF_SEED', '1') or '1')
        except ValueError:
            seed = 1
        try:
            return core.check_property(a.pid.upper(), a.tier, seed, a.sub, a.jobs)
        except core.HarnessError as e:
            sys.stderr.write('HARNESS ERROR: %s\n' % e)
            return 2
    if cmd == 'replay':
        return core.replay_file(argv[2])
    if cmd == 'list':
        import glob
        for f in sorted(glob.glob(os.path.join(VERIF, 'vf', 'props', 'c[0-9]*.py'))):
            print(os.path.basename(f)[:-3].upper())
        return 0
    sys.stderr.write(__doc__)
    return 2


if __name__ == '__main__':
    try:
        rc = main(sys.argv)
    except SystemExit:
        raise
    except BaseException:
        import traceback
        traceback.print_exc()
        rc = 2
    sys.stdout.flush()
    sys.exit(rc)
